#!/bin/bash
# Offline setup: third-party deps of the checks go into /verif/.deps (never into /venv).
set -e
cd "$(dirname "$0")"
if ! PYTHONPATH=.deps /venv/bin/python -c "import hypothesis, jsonschema, atheris" 2>/dev/null; then
  rm -rf .deps
  PIP_NO_INDEX=1 /venv/bin/pip install -q --no-index --find-links /opt/veriftools/wheels --target .deps hypothesis jsonschema atheris
fi
mkdir -p evidence replay
PYTHONPATH=.deps /venv/bin/python -c "import hypothesis, jsonschema, atheris, duckdb, sqlite3; print('deps ok', hypothesis.__version__, duckdb.__version__)"
