#!/bin/bash
# ./campaign.sh <Cnn> <tier> <seed-from> <seed-to> : run a check at many seeds into out/<seed>/ and print every non-catalogued bucket it saw.
prop=$1; tier=$2; a=$3; b=$4
for s in $(seq $a $b); do
  VP_OUT=out/$s VERIF_SEED=$s ./check $prop $tier > out_$s.log 2>&1
  echo "seed $s exit $? $(grep -a "$prop $tier" out_$s.log | tail -1)"
  grep -a "  bucket:" out_$s.log
  /venv/bin/python -c "
import json
e=json.load(open('out/$s/evidence/$prop.json'))
for b,v in e['coverage'].get('uncatalogued_rare_buckets',{}).items(): print('  rare:', v['hits'], b, '|', str(v.get('detail',''))[:160].replace(chr(10),' '))
" 2>/dev/null
done
