#!/bin/bash
# ./seedcheck.sh <Cnn> [extra check ids...]  -- confirm a sub-agent's seeded change in /tmp/seed_<Cnn>, run our quick check(s) against it, store it under /verif/seeded/<Cnn>/
p=$1; shift; others="$@"
wt=${WT:-/tmp/seed_$p}      # WT=/tmp/seed2_C03 NAME=C03-2 ./seedcheck.sh C03   for later rounds
name=${NAME:-$p}
[ -f $wt/patch.diff ] || { echo "no patch"; exit 2; }
cd $wt
PYTHONPATH=$wt timeout 600 /venv/bin/python demo.py > /tmp/seed_${p}_demo_with.log 2>&1; with=$?
git stash -q; PYTHONPATH=$wt timeout 600 /venv/bin/python demo.py > /tmp/seed_${p}_demo_without.log 2>&1; without=$?; git stash pop -q
suite=$(PYTHONPATH=$wt /venv/bin/python -m pytest -q -p no:cacheprovider -n 8 tests 2>&1 | tail -1)
echo "demo with change: exit $with; without: exit $without; suite: $suite"
cd /verif
mkdir -p seeded/$name; cp $wt/patch.diff seeded/$name/patch.diff; cp $wt/demo.py seeded/$name/demo.py
res=""
for c in $p $others; do
  out=$(timeout 2400 ./selftest $c seeded/$name/patch.diff 2>&1 | grep -a SELFTEST)
  echo "$out"; res="$res | $c: $(echo "$out" | sed 's/SELFTEST [A-Z0-9]* patch.diff: //')"
done
echo "$res" > seeded/$name/check_result.txt
echo "with=$with without=$without suite=$suite" >> seeded/$name/check_result.txt
