#!/venv/bin/python
"""mkmut.py <name> <repo-relative-path> <old> <new>  -- write /verif/mutants/<name>.patch without touching /repo."""
import difflib, sys

name, path, old, new = sys.argv[1:5]
src = open("/repo/" + path).read()
assert src.count(old) >= 1, f"{name}: old text not found in {path}"
dst = src.replace(old, new, 1)
diff = "".join(difflib.unified_diff(src.splitlines(True), dst.splitlines(True), "a/" + path, "b/" + path))
open(f"/verif/mutants/{name}.patch", "w").write(diff)
print(name, len(diff.splitlines()), "lines")
