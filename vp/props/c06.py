"""C06 — simplify / normalize preserve SQL three-valued logic (truth-table oracle on SQLite)."""
from __future__ import annotations

import itertools
import sqlite3

from hypothesis import strategies as st

from vp import core
from vp.gen import exprs as G

ID = "C06"
LEVEL = "exploration"
RULE = (
    "Hypothesis generates well-typed boolean/integer expressions (BOOLEAN p,q,r; INT a,b,c; AND/OR/NOT, comparisons, BETWEEN, "
    "IS [NOT] NULL, IN, COALESCE, CASE/IF, + - *, unary minus, literals; depth<=5; atoms drawn from a small pool so that operands repeat) "
    "x mode {untyped, typed, typed with NOT NULL columns, WHERE context} x dialect {base, duckdb, mysql, sqlite, redshift} x options; "
    "oracle = SQLite evaluates original and rewritten expression over the full cross product of column domains "
    "(BOOLEAN: NULL,0,1; INT: NULL,-6..12) and the two must be IS-equal on every row; applied to simplify(), normalize(cnf/dnf) and, in observer "
    "cases, to every single rule application. A case is non-trivial when the output text differs from the input and the truth table has >=2 outcomes; "
    "distinct = distinct (expression text, mode, dialect, options)."
)
ASSUMPTIONS = [
    "SQLite 3.40 evaluates the generated fragment (no division, no text) with standard SQL three-valued logic",
    "sqlglot's sqlite generator renders the rewritten expression faithfully (covered separately by C01/C02)",
    "INT domain NULL,-6..12 contains every order-relevant integer for literals in -2..7 and one arithmetic step",
]

INT_DOM = [None] + list(range(-6, 13))
SMALL_INT_DOM = [None, -1, 0, 1, 2, 6]
BOOL_DOM = [None, 0, 1]
DIALECTS = [None, "duckdb", "mysql", "sqlite", "redshift", "postgres"]

_conn = None
_tables: set = set()


def _env(cols):
    """Return the name of a table holding the cross product of the domains of `cols` (cached per process)."""
    global _conn
    if _conn is None:
        _conn = sqlite3.connect(":memory:")
    cols = tuple(sorted(cols)) or ("p",)
    name = "env_" + "".join(cols)
    if name not in _tables:
        n_int = sum(1 for c in cols if c in G.INT_COLS)
        doms = []
        for c in cols:
            if c in G.BOOL_COLS:
                doms.append(BOOL_DOM)
            elif n_int <= 2:
                doms.append(INT_DOM)
            else:
                doms.append(INT_DOM if c == "a" else SMALL_INT_DOM + ([3, 7] if c == "b" else []))
        _conn.execute(f"CREATE TABLE {name} ({', '.join(cols)})")
        _conn.executemany(f"INSERT INTO {name} VALUES ({', '.join('?' for _ in cols)})", itertools.product(*doms))
        _tables.add(name)
    return name, cols


def _compare(e1: str, e2: str, cols, nonnull=(), relax_cols=(), where: bool = False):
    """Return (n_rows, n_outcomes, mismatches[:3]). SQLite error -> raises sqlite3.Error."""
    name, cols = _env(cols)
    conds = [f"{c} IS NOT NULL" for c in nonnull if c in cols]
    base = f"FROM {name} AS t" + (f" WHERE {' AND '.join(conds)}" if conds else "")
    n_rows, n_out = _conn.execute(f"SELECT COUNT(*), COUNT(DISTINCT IFNULL(CAST(({e1}) AS TEXT), 'N')) {base}").fetchone()
    if where:
        diff = f"(IFNULL(({e1}), 0) <> 0) IS NOT (IFNULL(({e2}), 0) <> 0)"
    else:
        diff = f"({e1}) IS NOT ({e2})"
    extra = ""
    rc = list(relax_cols)
    if rc:
        extra = " AND NOT (" + " OR ".join(f"({c}) IS NULL" for c in rc) + ")"
    q = f"SELECT {', '.join(cols)}, ({e1}), ({e2}) {base} {'AND' if conds else 'WHERE'} {diff}{extra} LIMIT 3"
    mism = _conn.execute(q).fetchall()
    relaxed_hit = False
    if rc and not mism:
        q2 = f"SELECT 1 {base} {'AND' if conds else 'WHERE'} {diff} LIMIT 1"
        relaxed_hit = bool(_conn.execute(q2).fetchall())
    return n_rows, n_out, [dict(zip(list(cols) + ["before", "after"], m)) for m in mism], relaxed_hit


# --- runtime observer of single rule applications ----------------------------------------------

_RULES = (
    "rewrite_between", "simplify_not", "simplify_connectors", "remove_complements", "uniq_sort", "absorb_and_eliminate",
    "simplify_equality", "simplify_literals", "simplify_coalesce", "simplify_conditionals", "sort_comparison",
)
_installed = False
_log: list | None = None
_contra_cols: set = set()
_prop_cols: set = set()


def _install():
    global _installed
    if _installed:
        return
    _installed = True
    from sqlglot import exp
    from sqlglot.optimizer import simplify as S

    def wrap(name):
        orig = getattr(S.Simplifier, name)

        def w(self, expression, *a, **k):
            if _log is None or not isinstance(expression, exp.Expr):
                return orig(self, expression, *a, **k)
            try:
                before = _explicit_sql(expression)
            except Exception:
                before = None
            out = orig(self, expression, *a, **k)
            if before is not None and out is not None and isinstance(out, exp.Expr):
                try:
                    after = _explicit_sql(out)
                except Exception:
                    after = None
                if after is not None and after != before:
                    _log.append((name, before, after))
            return out

        w.__name__ = name
        setattr(S.Simplifier, name, w)

    for n in _RULES:
        wrap(n)

    orig_cmp = S.Simplifier._simplify_comparison

    def cmp_w(self, expression, left, right, or_=False):
        out = orig_cmp(self, expression, left, right, or_)
        if isinstance(out, exp.Boolean) and out.this is False:
            # known finding C06-contradiction-to-false: remember the shared operand(s); the verdict is relaxed only on rows
            # where such an operand is NULL (original NULL, rewritten FALSE), everything else stays strict
            try:
                shared = {left.this, left.expression} & {right.this, right.expression}
                for m in shared:
                    if not isinstance(m, (exp.Literal, exp.Boolean, exp.Null)):
                        _contra_cols.add(_explicit_sql(m))
            except Exception:
                pass
        return out

    S.Simplifier._simplify_comparison = cmp_w

    orig_pc = S.propagate_constants

    def pc_w(expression, root=True):
        # known finding C06-constant-propagation-null: remember which columns were substituted
        from collections import Counter

        try:
            before = Counter(c.sql("sqlite") for c in expression.find_all(exp.Column))
        except Exception:
            before = None
        out = orig_pc(expression, root)
        if before is not None and isinstance(out, exp.Expr):
            after = Counter(c.sql("sqlite") for c in out.find_all(exp.Column))
            for c, n in before.items():
                if after.get(c, 0) < n:
                    _prop_cols.add(c)
        return out

    S.propagate_constants = pc_w

    # module-level rules
    for name in ("flatten", "simplify_parens", "propagate_constants"):
        orig = getattr(S, name)

        def mk(orig=orig, name=name):
            def w(expression, *a, **k):
                if _log is None or not isinstance(expression, exp.Expr):
                    return orig(expression, *a, **k)
                try:
                    before = _explicit_sql(expression)
                except Exception:
                    before = None
                out = orig(expression, *a, **k)
                if before is not None and isinstance(out, exp.Expr):
                    try:
                        after = _explicit_sql(out)
                    except Exception:
                        after = None
                    if after is not None and after != before:
                        _log.append((name, before, after))
                return out

            return w

        setattr(S, name, mk())


def _explicit_sql(node) -> str:
    """SQLite text of `node` with every compound operand wrapped in parentheses, so that the text means what the
    *tree* means (sqlglot emits no precedence parentheses; engines disagree on e.g. `p = a IN (0)`)."""
    from sqlglot import exp

    compound = (exp.Binary, exp.Unary, exp.Between, exp.In, exp.Is)

    def rec(n):
        for child in list(n.iter_expressions()):
            rec(child)
            if isinstance(child, compound) and not isinstance(n, exp.Paren):
                key, idx = child.arg_key, child.index
                p = exp.Paren(this=child)
                if idx is None:
                    n.args[key] = p
                else:
                    n.args[key][idx] = p
                p.parent, p.arg_key, p.index = n, key, idx

    n = exp.Paren(this=node.copy())
    rec(n)
    return n.this.sql("sqlite")


# --- independent normal-form predicate ----------------------------------------------------------


def _is_normal(node, dnf: bool) -> bool:
    """Connectors and parens only; everything else is an opaque atom (never stricter than the library)."""
    from sqlglot import exp

    outer, inner = (exp.Or, exp.And) if dnf else (exp.And, exp.Or)

    def strip(n):
        while isinstance(n, exp.Paren):
            n = n.this
        return n

    def only_inner(n):
        n = strip(n)
        if isinstance(n, outer):
            return False
        if isinstance(n, inner):
            return only_inner(n.left) and only_inner(n.right)
        return True

    def top(n):
        n = strip(n)
        if isinstance(n, outer):
            return top(n.left) and top(n.right)
        return only_inner(n)

    return top(node)


# --- the property body ---------------------------------------------------------------------------


def _schema(nonnull):
    from sqlglot import exp
    from sqlglot.schema import MappingSchema

    cols = {}
    for c in G.BOOL_COLS + G.INT_COLS:
        t = exp.DataType.build("BOOLEAN" if c in G.BOOL_COLS else "INT")
        if c in nonnull:
            t.set("nullable", False)
        cols[c] = t
    return MappingSchema({"t": cols})


def evaluate(case) -> list:
    """Run one case; returns list of (bucket, detail). Also fills case['_info'] for evidence."""
    global _log
    _install()
    import sqlglot
    from sqlglot import exp
    from sqlglot.optimizer.annotate_types import annotate_types
    from sqlglot.optimizer.normalize import normalize
    from sqlglot.optimizer.qualify import qualify
    from sqlglot.optimizer.simplify import simplify

    sql, lite, mode, dialect = case["sql"], case["sqlite"], case["mode"], case["dialect"]
    op, opts = case["op"], case.get("opts", {})
    nonnull = tuple(case.get("nonnull", ()))
    cols = tuple(case["cols"])
    fails = []
    info = case.setdefault("_info", {})

    _contra_cols.clear()
    _prop_cols.clear()
    _log = [] if case.get("observe") else None
    try:
        if mode == "untyped":
            tree = sqlglot.parse_one(sql, dialect=dialect)
            root = tree
        else:
            q = f"SELECT 1 AS e FROM t WHERE {sql}" if mode == "where" else f"SELECT {sql} AS e FROM t"
            tree = sqlglot.parse_one(q, dialect=dialect)
            schema = _schema(nonnull if mode in ("nonnull", "where") else ())
            tree = qualify(tree, schema=schema, dialect=dialect)
            tree = annotate_types(tree, schema=schema, dialect=dialect)
        if op == "simplify":
            out = simplify(tree, dialect=dialect, **opts)
        else:
            if mode == "untyped":
                out = normalize(tree, dnf=op == "dnf", **opts)
            else:
                out = normalize(tree, dnf=op == "dnf", **opts)
    finally:
        log, _log = _log, None
    if mode == "untyped":
        out_expr = out
    elif mode == "where":
        w = out.args.get("where")
        out_expr = w.this if w else exp.true()
    else:
        out_expr = out.selects[0].unalias()
    after = _explicit_sql(out_expr)
    info["after"] = after
    info["after_plain"] = out_expr.sql("sqlite")
    strict = bool(case.get("strict"))
    relax = [] if strict else sorted(_contra_cols | _prop_cols)
    info["relax_kinds"] = [k for k, v in (("C06-contradiction-to-false", _contra_cols), ("C06-constant-propagation-null", _prop_cols)) if v]
    nn = nonnull if mode in ("nonnull", "where") else ()
    try:
        n_rows, n_out, mism, relaxed_hit = _compare(lite, after, cols, nn, relax, where=(mode == "where"))
    except sqlite3.Error as e:
        return [(f"{op}:sqlite-rejects-output", f"{sql!r} -> {after!r}: {e}")]
    info["rows"], info["outcomes"], info["relaxed"] = n_rows, n_out, relaxed_hit
    if not mism:
        # the text sqlglot emits for the result must mean the same as the tree: re-read the generated text with sqlglot's
        # own base grammar and evaluate that (catches a lost parenthesis, e.g. NOT x >= 1 AND x <= 3 for NOT BETWEEN)
        try:
            reread = _explicit_sql(sqlglot.parse_one(out_expr.sql()))
        except Exception as e:
            return [(f"{op}:{mode}:output-text-unparseable", f"{sql!r} -> {out_expr.sql()!r}: {type(e).__name__}: {e}")]
        if reread != after:
            try:
                _, _, mism_t, _ = _compare(lite, reread, cols, nn, relax, where=(mode == "where"))
            except sqlite3.Error as e:
                mism_t = []
            if mism_t:
                fails.append((f"{op}:{mode}:generated-text-regroups", f"{sql!r} -> text {out_expr.sql()!r} reads back as {reread!r}; rows {mism_t}"))
    if mism:
        rule = None
        # attribute to the first single rule whose own before/after differ on some row
        for name, b, a in log or ():
            try:
                _, _, m2, _ = _compare(b, a, cols, nn, relax)
            except sqlite3.Error:
                continue
            if m2:
                rule = name
                break
        fails.append((f"{op}:{mode}:{rule or 'end-to-end'}", f"{sql!r} ({dialect}, {opts}, nonnull={nn}) -> {after!r}; rows {mism}"))
    elif log:
        for name, b, a in log:
            try:
                _, _, m2, rh = _compare(b, a, cols, nn, relax)
            except sqlite3.Error:
                continue  # a sub-expression that is not evaluable on its own (e.g. bare tuple)
            info["steps"] = info.get("steps", 0) + 1
            if m2:
                fails.append((f"step:{name}", f"within {sql!r}: {b!r} -> {a!r}; rows {m2}"))
                break
    if op in ("cnf", "dnf"):
        target = out_expr
        if not _is_normal(target, dnf=op == "dnf"):
            # allowed only if the input came back unchanged (BETWEEN expansion happens before the distance test)
            src = sqlglot.parse_one(sql, dialect=dialect)
            if mode != "untyped":
                src = None
            unchanged = src is not None and _strip_between(src) == _strip_between(target)
            if mode != "untyped":
                orig = case.get("_orig_sql")
                unchanged = orig is not None and orig == _between_free_sql(target)
            if not unchanged:
                fails.append((f"{op}:not-normal-form", f"{sql!r} -> {after!r} is neither in {op.upper()} nor the unchanged input"))
        info["normal"] = True
    return fails


def _strip_between(e):
    from sqlglot import exp

    def f(n):
        if isinstance(n, exp.Between):
            r = exp.and_(exp.GTE(this=n.this.copy(), expression=n.args["low"].copy()), exp.LTE(this=n.this.copy(), expression=n.args["high"].copy()), copy=False)
            return exp.paren(r, copy=False) if isinstance(n.parent, exp.Not) else r
        return n

    return e.copy().transform(f).sql()


def _between_free_sql(e):
    return _strip_between(e)


@st.composite
def cases(draw, max_depth: int):
    shape = draw(st.integers(0, 9))
    depth = draw(st.integers(1, max_depth))
    if shape < 2:
        e = draw(G.cmp_cluster())
        kind = "bool"
    elif shape < 6:
        e = draw(G.pooled_bool_expr(depth))
        kind = "bool"
    elif shape < 9:
        e = draw(G.bool_expr(depth))
        kind = "bool"
    else:
        e = draw(G.int_expr(depth))
        kind = "int"
    cols = sorted(G.columns(e))
    op = draw(st.sampled_from(("simplify", "simplify", "simplify", "cnf", "dnf"))) if kind == "bool" else "simplify"
    mode = draw(st.sampled_from(("untyped", "typed", "nonnull", "where"))) if kind == "bool" else draw(st.sampled_from(("untyped", "typed", "nonnull")))
    dialect = draw(st.sampled_from(DIALECTS))
    opts = {}
    if op == "simplify":
        if draw(st.booleans()):
            opts["constant_propagation"] = True
        if draw(st.booleans()):
            opts["coalesce_simplification"] = True
    else:
        md = draw(st.sampled_from((128, 128, 6, 2)))
        if md != 128:
            opts["max_distance"] = md
    nonnull = []
    if mode in ("nonnull", "where") and cols:
        nonnull = sorted(draw(st.sets(st.sampled_from(cols), min_size=0 if mode == "where" else 1)))
    return {
        "sql": G.render(e),
        "sqlite": G.render(e, sqlite=True),
        "cols": cols,
        "kind": kind,
        "mode": mode,
        "dialect": dialect,
        "op": op,
        "opts": opts,
        "nonnull": nonnull,
        "observe": draw(st.integers(0, 3)) == 0,
        "_kinds": sorted(G.kinds(e)),
    }


def _body(case, res: core.Res):
    case = dict(case)
    kinds = case.pop("_kinds", [])
    if case["mode"] != "untyped" and case["op"] != "simplify":
        # remember what the qualified input looked like, for the "returned unchanged" branch
        import sqlglot
        from sqlglot.optimizer.qualify import qualify

        q = f"SELECT 1 AS e FROM t WHERE {case['sql']}" if case["mode"] == "where" else f"SELECT {case['sql']} AS e FROM t"
        t0 = qualify(sqlglot.parse_one(q, dialect=case["dialect"]), schema=_schema(()), dialect=case["dialect"])
        w = t0.args["where"].this if case["mode"] == "where" else t0.selects[0].unalias()
        case["_orig_sql"] = _strip_between(w)
    fails = evaluate(case)
    info = case.pop("_info", {})
    case.pop("_orig_sql", None)
    after = info.get("after")
    changed = after is not None and info.get("after_plain") != case["sqlite"]
    nontrivial = changed and info.get("outcomes", 0) >= 2
    classes = [f"op:{case['op']}", f"mode:{case['mode']}", f"dialect:{case['dialect']}", f"kind:{case['kind']}"]
    classes += [f"has:{k}" for k in kinds]
    if changed:
        classes.append("rewritten")
    if case["observe"]:
        classes.append("observed")
    if info.get("relaxed"):
        for k in info.get("relax_kinds", []):
            res.excluded[k] += 1
    res.extra["rule_steps_checked"] = res.extra.get("rule_steps_checked", 0) + info.get("steps", 0)
    res.extra["truth_table_rows"] = res.extra.get("truth_table_rows", 0) + info.get("rows", 0)
    key = {k: case[k] for k in ("sql", "mode", "dialect", "op", "opts", "nonnull")}
    res.case(core.h8(key), nontrivial, classes)
    if nontrivial:
        res.sample({"in": case["sql"], "out": after, "mode": case["mode"], "dialect": case["dialect"], "op": case["op"], "opts": case["opts"], "rows": info.get("rows")}, cls=f"{case['op']}:{case['mode']}")
    return fails


def _encode(case):
    return {k: v for k, v in case.items() if not k.startswith("_")}


def plan(tier):
    if tier == "quick":
        return [{"n": 450, "depth": 4}] * 16
    return [{"n": 800, "depth": 5}] * 48 + [{"n": 250, "depth": 7}] * 16


def run_shard(spec, seed, res, only_bucket=None):
    return core.drive(cases(spec["depth"]), _body, seed, spec["n"], res, only_bucket, encode=_encode)


def replay(case):
    case = dict(case)
    case["observe"] = True
    if case["mode"] != "untyped" and case["op"] != "simplify":
        import sqlglot
        from sqlglot.optimizer.qualify import qualify

        q = f"SELECT 1 AS e FROM t WHERE {case['sql']}" if case["mode"] == "where" else f"SELECT {case['sql']} AS e FROM t"
        t0 = qualify(sqlglot.parse_one(q, dialect=case["dialect"]), schema=_schema(()), dialect=case["dialect"])
        w = t0.args["where"].this if case["mode"] == "where" else t0.selects[0].unalias()
        case["_orig_sql"] = _strip_between(w)
    fails = evaluate(case)
    return fails


MIN_CLASSES = {"quick": {"rewritten": 1500, "observed": 500, "op:cnf": 200, "op:dnf": 200, "mode:nonnull": 300}}
