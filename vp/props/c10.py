"""C10 — qualification is complete, idempotent and faithful to name resolution; identifier normalisation laws."""
from __future__ import annotations

import logging
import re

from hypothesis import strategies as st

from vp import core
from vp.gen import queries
from vp.oracle import engines

ID = "C10"
LEVEL = "exploration"
RULE = (
    "Queries: Hypothesis builds typed queries (joins, derived tables, CTEs, correlated subqueries, set operations, GROUP BY/HAVING, ORDER BY on output names) and applies a "
    "generated qualification mask: a column reference is emitted bare when its name belongs to exactly one source of the whole query, qualified otherwise; plus targeted shapes "
    "for stars (*, t.*, * EXCLUDE/REPLACE), USING joins, alias references in WHERE/GROUP BY/HAVING/ORDER BY, and CTE column lists; schemas of depth 1-3 (db / catalog defaults). "
    "Oracle: qualify(q, schema, dialect) raises OptimizeError or returns q1 where every Table under FROM/JOIN has an alias, every Column has a table naming a source visible in "
    "its scope chain (ORDER BY may name output columns), output names are unchanged, stars expand to exactly the schema's columns in schema order (minus EXCLUDE), "
    "qualify(q1) == q1 textually, and - independent scoping oracle - DuckDB returns the same rows and column names for q and q1, or reports q ambiguous/unknown exactly when "
    "qualify raised. Identifier laws over generated identifiers x all dialects: normalisation is idempotent, leaves quoted identifiers alone unless the dialect folds quoted names, "
    "and lower/upper-cases unquoted ones per strategy. Non-trivial = >=1 bare column resolved among >=2 sources, or a star / USING / alias reference / column list; "
    "distinct = distinct (query, dialect, defaults)."
)
ASSUMPTIONS = [
    "DuckDB's binder is the independent judge of name resolution for the DuckDB-dialect cases",
    "a bare column is only generated when exactly one source of the whole query has that name, so the generator itself never creates ambiguity (ambiguous cases come from the targeted shapes)",
]

DIALECTS = ("duckdb", "duckdb", "", "postgres", "snowflake", "bigquery", "mysql", "spark", "tsql", "clickhouse", "oracle")
COLS = {t: [c for c, _ in cols] for t, cols in queries.SCHEMA.items()}


def mask(sql, choices):
    """Drop the qualifier of xN.col when col is a base-table column that exactly one source instance of the query has."""
    inst = re.findall(r"\b(t|u|v) AS (x\d+)\b", sql)
    owners = {}
    for tbl, al in inst:
        for c in COLS[tbl]:
            owners.setdefault(c, []).append(al)
    k = [0]

    def rep(m):
        al, c = m.group(1), m.group(2)
        if c in owners and owners[c] == [al]:
            k[0] += 1
            if choices[k[0] % len(choices)]:
                return c
        return m.group(0)

    return re.sub(r"\b(x\d+)\.([a-g])\b", rep, sql), k[0]


@st.composite
def cases(draw, depth):
    kind = draw(st.sampled_from(("masked", "masked", "masked", "star", "using", "using3", "aliasref", "ctecols", "ambiguous", "quotedtable")))
    d = draw(st.sampled_from(DIALECTS))
    tables = draw(queries.tables())
    feats = [kind]
    if kind == "masked":
        c = draw(queries.case("optimizer", depth))
        choices = [draw(st.booleans()) for _ in range(8)] + [True]
        sql, n = mask(c["sql"], choices)
        feats += c["features"] + (["bare-columns"] if n else [])
        return _with_depth({"sql": sql, "tables": tables, "dialect": d, "kind": kind, "features": feats, "ordered": c["ordered"], "bare": n}, draw)
    if kind == "quotedtable":
        # a quoted, mixed-case table name next to its lower-case twin: references through the quoted name must resolve to it (the
        # implicit alias of a quoted name keeps its spelling), in dialects where quoted identifiers are case-sensitive
        qd = draw(st.sampled_from(("postgres", "snowflake", "", "oracle", "redshift", "trino")))
        sql = draw(st.sampled_from((
            'SELECT "Tq".a AS o0 FROM "Tq"',
            'SELECT a AS o0 FROM "Tq"',
            'SELECT "Tq".a AS o0, tq.z AS o1 FROM "Tq" JOIN tq ON "Tq".a = tq.a',
            'SELECT "Tq".* FROM "Tq" JOIN tq ON "Tq".a = tq.a',
            'SELECT x."Qc" AS o0 FROM "Tq" AS x WHERE x."Qc" > 1',
        )))
        return {"sql": sql, "tables": tables, "dialect": qd, "kind": kind, "features": feats, "ordered": False, "bare": 1, "quoted_schema": True, "must_qualify": True}
    t1, t2 = draw(st.sampled_from(("t", "u", "v"))), draw(st.sampled_from(("t", "u", "v")))
    if kind == "star":
        d = "duckdb" if draw(st.booleans()) else d
        form = draw(st.sampled_from(("*", "x1.*", "x1.*, x2.*", "* EXCLUDE", "x2.*, x1.*")))
        if form == "* EXCLUDE":
            d = "duckdb"
            ex = draw(st.sampled_from(COLS[t1]))
            sel = f"* EXCLUDE ({ex})"
            sql = f"SELECT {sel} FROM {t1} AS x1"
        elif "x2" in form:
            sql = f"SELECT {form} FROM {t1} AS x1 CROSS JOIN {t2} AS x2"
        else:
            sql = f"SELECT {form} FROM {t1} AS x1" + (f" WHERE x1.{COLS[t1][0]} > 0" if draw(st.booleans()) else "")
        if draw(st.booleans()) and "x2" not in form:
            sql = f"SELECT * FROM ({sql}) AS y"
        return _with_depth({"sql": sql, "tables": tables, "dialect": d, "kind": kind, "features": feats, "ordered": False, "bare": 0, "expect_star": True}, draw)
    if kind == "using":
        key = draw(st.sampled_from(("a", "b")))
        pair = {"a": ("t", "u"), "b": ("t", "v")}[key]
        other = draw(st.sampled_from([c for c in COLS[pair[0]] if c != key]))
        other2 = draw(st.sampled_from([c for c in COLS[pair[1]] if c != key]))
        side = draw(st.sampled_from(("JOIN", "LEFT JOIN", "RIGHT JOIN", "FULL JOIN")))
        sql = f"SELECT {key} AS o0, x1.{other} AS o1, {other2 if other2 not in COLS[pair[0]] else 'x2.' + other2} AS o2 FROM {pair[0]} AS x1 {side} {pair[1]} AS x2 USING ({key})"
        if draw(st.booleans()):
            sql += f" WHERE {key} IS NOT NULL"
        return {"sql": sql, "tables": tables, "dialect": d, "kind": kind, "features": feats, "ordered": False, "bare": 1}
    if kind == "using3":
        # USING join plus a further source that is NOT part of it (possibly with a column of the same name as the key), stars
        # over each source: the merged COALESCE(...) column belongs to the USING pair only. DuckDB judges names and rows.
        key = draw(st.sampled_from(("a", "b")))
        pair = {"a": ("t", "u"), "b": ("t", "v")}[key]
        if draw(st.booleans()):
            pair = (pair[1], pair[0])
        t3 = draw(st.sampled_from(("t", "u", "v")))
        side = draw(st.sampled_from(("JOIN", "LEFT JOIN", "RIGHT JOIN", "FULL JOIN")))
        c1 = draw(st.sampled_from([c for c in COLS[pair[0]] if c != key and c in "abdf"] or [COLS[pair[0]][1]]))
        c3 = draw(st.sampled_from([c for c in COLS[t3] if c in "abdf"]))
        third = draw(st.sampled_from((f"JOIN {t3} AS x3 ON x1.{c1} = x3.{c3}", f"LEFT JOIN {t3} AS x3 ON x1.{c1} = x3.{c3}", f"CROSS JOIN {t3} AS x3")))
        sel = draw(st.sampled_from(("*", "x3.*", "x1.*", "x2.*", f"x3.*, {key} AS k", f"{key} AS k, x3.{COLS[t3][0]} AS o1", "x1.*, x3.*", f"x2.*, x3.{COLS[t3][1]} AS o1", "x1.*, x2.*", "x2.*, x1.*")))
        sql = f"SELECT {sel} FROM {pair[0]} AS x1 {side} {pair[1]} AS x2 USING ({key}) {third}"
        # known finding C10-qualified-star-using-coalesce: x.* over a USING participant yields COALESCE(...) for the key; only
        # observable when that side can be null-extended, which is the region excluded (and counted) here
        null_extended = {"JOIN": (), "LEFT JOIN": ("x2",), "RIGHT JOIN": ("x1",), "FULL JOIN": ("x1", "x2")}[side]
        if any(f"{x}.*" in sel for x in null_extended):
            feats.append("excluded:qualified-star-null-extended-using-side")
        if "x1.*" in sel and "x2.*" in sel:
            # same finding: the second participant's star loses the key column altogether (engines return x1.k and x2.k)
            feats.append("excluded:qualified-star-both-using-sides")
        feats += ["star"] if "*" in sel else []
        return {"sql": sql, "tables": tables, "dialect": "duckdb" if draw(st.integers(0, 3)) else d, "kind": kind, "features": feats, "ordered": False, "bare": 1}
    if kind == "aliasref":
        c0, c1 = COLS[t1][0], COLS[t1][1]
        where = draw(st.sampled_from(("", f" WHERE {c0} > 0", " WHERE k > 1")))
        tail = draw(st.sampled_from((" GROUP BY k", " GROUP BY k HAVING COUNT(*) > 0", " GROUP BY k ORDER BY k", " GROUP BY 1")))
        sql = f"SELECT {c0} + 1 AS k, COUNT(*) AS n FROM {t1} AS x1{where}{tail}"
        if draw(st.integers(0, 2)) == 0:
            # an output name that is also an input column, used INSIDE an aggregate of an ORDER BY term: there it can only be the input
            # column (SQL allows output names in ORDER BY only as whole terms), so it must come back qualified
            term = draw(st.sampled_from((f"SUM({c0})", f"- SUM({c0})", f"SUM({c0}) + 1", f"COALESCE(MAX({c0}), 0)", f"MIN({c0}) * 2 DESC", f"{c0}", f"COUNT({c0}) + COUNT(*)")))
            sql = f"SELECT {c1} AS {c0}, COUNT(*) AS n FROM {t1} AS x1 GROUP BY {c1} ORDER BY {term}"
            feats.append("aliasref:aggregate-in-order")
            return {"sql": sql, "tables": tables, "dialect": draw(st.sampled_from(("duckdb", "duckdb", d))), "kind": kind, "features": feats, "ordered": False, "bare": 1}
        return {"sql": sql, "tables": tables, "dialect": "duckdb" if "k > 1" in where else d, "kind": kind, "features": feats, "ordered": False, "bare": 1}
    if kind == "ctecols":
        c0, c1 = COLS[t1][0], COLS[t1][1]
        sql = f"WITH c (p, q) AS (SELECT {c0}, {c1} FROM {t1}) SELECT p, c.q AS o1 FROM c WHERE q IS NOT NULL"
        return {"sql": sql, "tables": tables, "dialect": d, "kind": kind, "features": feats, "ordered": False, "bare": 1}
    # ambiguous / unknown on purpose: qualify must raise exactly when DuckDB's binder does
    form = draw(st.sampled_from(("amb", "unknown", "amb-self")))
    if form == "amb":
        sql = "SELECT a AS o0 FROM t AS x1 JOIN u AS x2 ON x1.a = x2.a"
    elif form == "unknown":
        sql = f"SELECT zz AS o0 FROM {t1} AS x1"
    else:
        sql = f"SELECT {COLS[t1][0]} AS o0 FROM {t1} AS x1 CROSS JOIN {t1} AS x2"
    return {"sql": sql, "tables": tables, "dialect": "duckdb", "kind": kind, "features": feats, "ordered": False, "bare": 1, "expect_error": True}


def _visible_sources(select):
    """Names a column inside `select` may refer to: its own sources and those of enclosing selects (correlation)."""
    from sqlglot import exp

    names = set()
    node = select
    while node is not None:
        if isinstance(node, exp.Select):
            fr = node.args.get("from_")
            srcs = ([fr.this] if fr else []) + [j.this for j in node.args.get("joins") or []]
            for s in srcs:
                names.add(s.alias_or_name)
            for lat in node.args.get("laterals") or []:
                names.add(lat.alias_or_name)
        node = node.parent
    return names


def _with_depth(case, draw):
    if case["dialect"] != "duckdb":
        case["schema_depth"] = draw(st.sampled_from((1, 1, 2, 3)))
    return case


def check_case(case, res=None):
    import sqlglot
    from sqlglot import exp
    from sqlglot.errors import OptimizeError, SqlglotError
    from sqlglot.optimizer.qualify import qualify

    logging.getLogger("sqlglot").setLevel(logging.CRITICAL)
    sql, d, tables = case["sql"], case["dialect"], case["tables"]
    dd = d or None
    fails = []
    schema = queries.schema_dict()
    if case.get("quoted_schema"):
        schema = {'"Tq"': {"a": "INT", '"Qc"': "INT"}, "tq": {"a": "INT", "z": "INT"}}
    depth = case.get("schema_depth", 1)
    qkw = {}
    if depth == 2:
        schema, qkw = {"d1": schema}, {"db": "d1"}
    elif depth == 3:
        schema, qkw = {"c1": {"d1": schema}}, {"db": "d1", "catalog": "c1"}
    try:
        tree = sqlglot.parse_one(sql, dialect=dd)
    except (SqlglotError, RecursionError):
        if res is not None:
            res.out_of_domain["does-not-parse-in-dialect"] += 1
        return []
    names_before = list(tree.named_selects) if isinstance(tree, exp.Query) else []
    raised = None
    try:
        q1 = qualify(tree.copy(), schema=schema, dialect=dd, **qkw)
    except OptimizeError as e:
        raised = e
    except RecursionError:
        return []
    except SqlglotError as e:
        raised = e
    except Exception as e:
        return [(f"qualify-raises|{type(e).__name__}|{case['kind']}", f"{d or 'base'} {sql!r}: {type(e).__name__}: {e}")]
    duck = None
    if d == "duckdb":
        db = engines.Duck(tables)
        try:
            try:
                duck = db.run(sql)
            except engines.EngineError as e:
                duck = e
            if raised is not None:
                if not isinstance(duck, Exception):
                    fails.append((f"qualify-rejects-what-duckdb-binds|{case['kind']}", f"{sql!r}: qualify raised {str(raised)[:200]!r} but DuckDB returns {engines.show(duck[1])}"))
            elif isinstance(duck, Exception):
                if "Binder" in str(duck) or "Catalog" in str(duck) or "ambiguous" in str(duck).lower():
                    fails.append((f"qualify-accepts-what-duckdb-rejects|{case['kind']}", f"{sql!r}: qualify returned {q1.sql('duckdb')!r} but DuckDB says {str(duck)[:200]}"))
            else:
                try:
                    names1, rows1 = db.run(q1.sql("duckdb"))
                    if "excluded:qualified-star-both-using-sides" in case.get("features", ()) and not case.get("strict"):
                        if res is not None:
                            res.excluded["C10-qualified-star-using-coalesce"] += 1
                    elif [n.lower() for n in names1] != [n.lower() for n in duck[0]]:
                        fails.append((f"qualified-column-names|{case['kind']}", f"{sql!r} -> {q1.sql('duckdb')!r}: {duck[0]} vs {names1}"))
                    elif "excluded:qualified-star-null-extended-using-side" in case.get("features", ()) and not case.get("strict"):
                        # known finding: only the ROW comparison is waived for this region; names, idempotence, structure stay
                        if res is not None:
                            res.excluded["C10-qualified-star-using-coalesce"] += 1
                    elif not engines.same_rows(duck[1], rows1, case["ordered"]):
                        fails.append((f"qualified-rows|{case['kind']}", f"{sql!r} -> {q1.sql('duckdb')!r}; tables {tables}: {engines.show(duck[1])} vs {engines.show(rows1)}"))
                except engines.EngineError as e:
                    fails.append((f"qualified-sql-invalid|{case['kind']}", f"{sql!r} -> {q1.sql('duckdb')!r}: {e}"))
        finally:
            db.close()
    if res is not None:
        nontrivial = case["bare"] > 0 or case["kind"] != "masked"
        res.case(core.h8([sql, d]), bool(nontrivial), [f"kind:{case['kind']}", f"dialect:{d or 'base'}", f"schema-depth:{depth}"] + (["qualify-raised"] if raised is not None else []) + (["bare-columns"] if case["bare"] else []) + (["duckdb-judged"] if duck is not None else []))
    if raised is not None:
        if case.get("must_qualify"):
            fails.append((f"qualify-rejects-valid-query|{case['kind']}", f"{d or 'base'} {sql!r}: {type(raised).__name__}: {str(raised)[:200]}"))
        return fails
    # structure -------------------------------------------------------------------------------------
    for tbl in q1.find_all(exp.Table):
        if isinstance(tbl.parent, (exp.From, exp.Join)) and not tbl.alias:
            fails.append((f"table-without-alias|{case['kind']}", f"{d or 'base'} {sql!r} -> {q1.sql(dd)!r}"))
            break
    if depth > 1:
        for tbl in q1.find_all(exp.Table):
            if tbl.name.lower() in COLS and isinstance(tbl.parent, (exp.From, exp.Join)):
                if tbl.db.lower() != "d1" or (depth == 3 and tbl.catalog.lower() != "c1"):
                    fails.append((f"default-db-catalog-not-applied|depth{depth}", f"{d or 'base'} {sql!r} -> {q1.sql(dd)!r}"))
                    break
    for col in q1.find_all(exp.Column):
        if col.find_ancestor(exp.Order) and not col.table:
            if col.find_ancestor(exp.AggFunc) is not None and col.find_ancestor(exp.AggFunc).find_ancestor(exp.Order) is not None and not col.find_ancestor(exp.Window):
                fails.append((f"column-without-table-under-aggregate-in-order|{case['kind']}", f"{d or 'base'} {sql!r} -> {q1.sql(dd)!r}: {col.sql()}"))
                break
            continue  # ORDER BY may name an output column
        if isinstance(col.parent, exp.Join) or col.find_ancestor(exp.Join) and col.arg_key == "using":
            continue
        if not col.table:
            if col.find_ancestor(exp.Pivot, exp.Unnest):
                continue
            fails.append((f"column-without-table|{case['kind']}", f"{d or 'base'} {sql!r} -> {q1.sql(dd)!r}: {col.sql()}"))
            break
        sel = col.find_ancestor(exp.Select)
        if sel is not None and col.table not in _visible_sources(sel):
            fails.append((f"column-names-invisible-source|{case['kind']}", f"{d or 'base'} {sql!r} -> {q1.sql(dd)!r}: {col.sql()} (visible: {sorted(_visible_sources(sel))})"))
            break
    if isinstance(q1, exp.Query) and not case.get("expect_star") and "*" not in names_before:
        if [n.lower() for n in q1.named_selects] != [n.lower() for n in names_before]:
            fails.append((f"output-names-changed|{case['kind']}", f"{d or 'base'} {sql!r}: {names_before} -> {q1.named_selects}"))
    if case.get("expect_star") and isinstance(q1, exp.Query):
        if any(s.is_star for s in q1.selects):
            fails.append(("star-not-expanded", f"{d or 'base'} {sql!r} -> {q1.sql(dd)!r}"))
        else:
            m = re.match(r"SELECT (.*?) FROM (t|u|v) AS x1(?: CROSS JOIN (t|u|v) AS x2)?", sql if not sql.startswith("SELECT * FROM (") else sql[len("SELECT * FROM (") :])
            if m:
                form, ta, tb = m.group(1), m.group(2), m.group(3)
                want = []
                for part in [p.strip() for p in form.split(",")] if "EXCLUDE" not in form else [form]:
                    if part == "*":
                        want += COLS[ta] + (COLS[tb] if tb else [])
                    elif part == "x1.*":
                        want += COLS[ta]
                    elif part == "x2.*":
                        want += COLS[tb]
                    elif part.startswith("* EXCLUDE"):
                        ex = part[part.index("(") + 1 : -1]
                        want += [c for c in COLS[ta] if c != ex]
                got = [n.lower() for n in q1.named_selects]
                if got != want:
                    fails.append(("star-expansion-order", f"{d or 'base'} {sql!r}: expected {want}, got {got}"))
    try:
        again = qualify(q1.copy(), schema=schema, dialect=dd, **qkw)
        if again.sql(dd) != q1.sql(dd):
            fails.append((f"not-idempotent|{case['kind']}", f"{d or 'base'} {sql!r}: {q1.sql(dd)!r} -> {again.sql(dd)!r}"))
    except SqlglotError as e:
        fails.append((f"requalify-raises|{case['kind']}", f"{d or 'base'} {sql!r}: {q1.sql(dd)!r}: {str(e)[:200]}"))
    except RecursionError:
        pass
    if res is not None and not fails:
        res.sample({"sql": sql, "dialect": d, "qualified": q1.sql(dd)[:300]}, cls=case["kind"])
    return fails


# --- identifier normalisation laws ---------------------------------------------------------------------


@st.composite
def ident_cases(draw):
    from vp.gen import sqlcore

    name = draw(st.one_of(st.sampled_from(("abc", "ABC", "MiXed", "a_b", "ÄÖü", "ß", "İ", "ǅ", "x1", "SELECT", "a b", "ﬁ")), st.text(alphabet=st.characters(min_codepoint=33, max_codepoint=0x24F), min_size=1, max_size=6)))
    return {"name": name, "quoted": draw(st.booleans()), "dialect": draw(st.sampled_from(sqlcore.dialect_names()))}


def check_ident(case, res=None):
    from sqlglot import exp
    from sqlglot.dialects.dialect import Dialect, NormalizationStrategy

    d = Dialect.get_or_raise(case["dialect"] or None)
    ident = exp.to_identifier(case["name"], quoted=case["quoted"])
    once = d.normalize_identifier(ident.copy())
    twice = d.normalize_identifier(once.copy())
    fails = []
    label = f"{case['dialect'] or 'base'} ({d.normalization_strategy.name}) {case['name']!r} quoted={case['quoted']}"
    if twice.this != once.this or bool(twice.quoted) != bool(once.quoted):
        fails.append(("normalize-not-idempotent", f"{label}: {once.this!r} -> {twice.this!r}"))
    strat = d.normalization_strategy
    folds_quoted = strat in (NormalizationStrategy.CASE_INSENSITIVE, NormalizationStrategy.CASE_INSENSITIVE_UPPERCASE)
    if strat is NormalizationStrategy.CASE_SENSITIVE or (case["quoted"] and not folds_quoted):
        if once.this != case["name"]:
            fails.append(("case-sensitive-identifier-altered", f"{label}: became {once.this!r}"))
    else:
        upper = strat in (NormalizationStrategy.UPPERCASE, NormalizationStrategy.CASE_INSENSITIVE_UPPERCASE)
        name = case["name"]
        if d.ASCII_ONLY_NORMALIZATION:
            want = "".join((c.upper() if upper else c.lower()) if c.isascii() else c for c in name)
        else:
            want = name.upper() if upper else name.lower()
        if once.this != want:
            fails.append(("unquoted-not-folded-per-strategy", f"{label}: became {once.this!r}, expected {want!r}"))
    if res is not None:
        res.case(core.h8(case), case["name"].lower() != case["name"].upper(), ["ident-law", f"strategy:{strat.name}"])
    return fails


def check_any(case, res=None):
    return check_ident(case, res) if "name" in case else check_case(case, res)


def plan(tier):
    if tier == "quick":
        return [{"kind": "q", "n": 450, "depth": 2}] * 14 + [{"kind": "i", "n": 3000}] * 2
    return [{"kind": "q", "n": 8000, "depth": 2}] * 36 + [{"kind": "q", "n": 3000, "depth": 3}] * 8 + [{"kind": "i", "n": 60000}] * 4


def run_shard(spec, seed, res, only_bucket=None):
    if spec["kind"] == "i":
        return core.drive(ident_cases(), check_ident, seed, spec["n"], res, only_bucket)
    return core.drive(cases(spec["depth"]), check_case, seed, spec["n"], res, only_bucket)


def replay(case):
    return check_any(case, None)


MIN_CLASSES = {"quick": {"bare-columns": 1000, "kind:star": 300, "kind:using": 300, "kind:using3": 300, "duckdb-judged": 1500, "ident-law": 4000, "qualify-raised": 100}}
