"""C16 — types inferred by annotate_types (DuckDB dialect) agree in class with what DuckDB actually produces."""
from __future__ import annotations

import itertools
import logging

from hypothesis import strategies as st

from vp import core

ID = "C16"
LEVEL = "exploration"
RULE = (
    "Columns of types BOOLEAN, TINYINT, SMALLINT, INT, BIGINT, DOUBLE, DECIMAL(10,2), VARCHAR, DATE, TIMESTAMP. Depth 1 is enumerated exhaustively: every binary operator "
    "(+ - * / % || comparisons AND OR COALESCE NULLIF CASE GREATEST LEAST) x every ordered pair of column types, every unary operator / function / CAST target / date part / "
    "aggregate / window function x every column type; Hypothesis nests these forms to depth 4. Oracle: DuckDB's typeof() of the evaluated expression over one non-NULL row, "
    "mapped to a type class (bool, int, real, text, date, timestamp, interval, other), vs the class of annotate_types(qualify(parse_one(sql,'duckdb')), schema, dialect='duckdb')"
    ".selects[0].type; expressions DuckDB rejects are outside the domain; an inferred UNKNOWN/NULL is 'no claim' (counted, bounded by a ceiling). A disagreement is attributed "
    "to the deepest sub-expression whose class disagrees while all its operands agree and keyed by (node class, operand classes, inferred, engine). The SQL generated from "
    "the tree is identical before and after annotation. Non-trivial = >=2 distinct operand classes or a coercing construct; distinct = distinct expressions."
)
ASSUMPTIONS = ["DuckDB 1.x typeof() is the reference; type classes, not exact widths, are compared (an inferred integer must be an engine integer)"]

COLUMNS = [("cb", "BOOLEAN", "TRUE"), ("c1", "TINYINT", "1"), ("c2", "SMALLINT", "2"), ("c4", "INT", "3"), ("c8", "BIGINT", "4"), ("cf", "DOUBLE", "1.5"), ("cd", "DECIMAL(10,2)", "2.25"), ("cv", "VARCHAR", "'abc'"), ("cdt", "DATE", "DATE '2020-01-02'"), ("cts", "TIMESTAMP", "TIMESTAMP '2020-01-02 03:04:05'")]
SCHEMA = {"ty": {c: t for c, t, _ in COLUMNS}}
BIN_OPS = ("+", "-", "*", "/", "%", "||", "=", "<>", "<", ">=", "AND", "OR")
BIN_FUNCS = ("COALESCE({a}, {b})", "NULLIF({a}, {b})", "CASE WHEN cb THEN {a} ELSE {b} END", "GREATEST({a}, {b})", "LEAST({a}, {b})", "IF(cb, {a}, {b})", "{a} BETWEEN {b} AND {b}", "{a} IN ({b}, {b})")
UNARY = (
    "- {a}", "ABS({a})", "ROUND({a})", "ROUND({a}, 1)", "FLOOR({a})", "CEIL({a})", "SQRT({a})", "LENGTH({a})", "UPPER({a})", "LOWER({a})", "{a} IS NULL", "NOT {a}", "EXTRACT(YEAR FROM {a})",
    "DATE_TRUNC('month', {a})", "{a} + INTERVAL 1 DAY", "{a} - INTERVAL 1 HOUR", "CAST({a} AS VARCHAR)", "CAST({a} AS BIGINT)", "CAST({a} AS DOUBLE)", "CAST({a} AS DATE)", "CAST({a} AS TIMESTAMP)",
    "CAST({a} AS BOOLEAN)", "CAST({a} AS DECIMAL(10, 2))", "CAST({a} AS SMALLINT)", "TRY_CAST({a} AS INT)", "SUBSTRING({a}, 1, 2)", "TRIM({a})", "{a} || 'x'", "YEAR({a})", "MONTH({a})", "{a} * 2", "{a} / 2", "{a} + 1.5",
    "STRFTIME({a}, '%Y')", "DATEDIFF('day', {a}, {a})", "CONCAT({a}, 'x')", "LN({a})", "POWER({a}, 2)", "SIGN({a})", "{a} // 2",
)
AGGS = ("SUM({a})", "AVG({a})", "MIN({a})", "MAX({a})", "COUNT({a})", "COUNT(*)", "COUNT(DISTINCT {a})", "ANY_VALUE({a})", "STDDEV({a})", "SUM({a}) OVER ()", "AVG({a}) OVER ()", "ROW_NUMBER() OVER ()", "RANK() OVER (ORDER BY {a})", "MIN({a}) OVER ()", "LAG({a}) OVER (ORDER BY c4)", "FIRST_VALUE({a}) OVER (ORDER BY c4)", "BOOL_AND(cb)", "STRING_AGG({a}, ',')")

_con = None


def _duck():
    global _con
    if _con is None:
        import duckdb

        _con = duckdb.connect(":memory:", config={"threads": 1})
        _con.execute("CREATE TABLE ty (" + ", ".join(f"{c} {t}" for c, t, _ in COLUMNS) + ")")
        _con.execute("INSERT INTO ty VALUES (" + ", ".join(v for _, _, v in COLUMNS) + ")")
    return _con


def engine_class(expr_sql):
    """DuckDB type class of the expression, or None when DuckDB rejects it."""
    import duckdb

    try:
        r = _duck().execute(f"SELECT typeof({expr_sql}) FROM ty").fetchone()
    except duckdb.Error:
        return None, None
    if r is None:
        return None, None
    return _class_of_name(r[0]), r[0]


def _class_of_name(name):
    n = name.upper()
    if n == "BOOLEAN":
        return "bool"
    if n in ("TINYINT", "SMALLINT", "INTEGER", "BIGINT", "HUGEINT", "UTINYINT", "USMALLINT", "UINTEGER", "UBIGINT", "UHUGEINT", "INT", "INT128", "UINT128"):
        return "int"
    if n in ("DOUBLE", "FLOAT", "REAL") or n.startswith("DECIMAL"):
        return "real"
    if n in ("VARCHAR", "TEXT", "CHAR") or n.startswith("VARCHAR"):
        return "text"
    if n == "DATE":
        return "date"
    if n.startswith("TIMESTAMP") or n == "DATETIME":
        return "timestamp"
    if n == "INTERVAL":
        return "interval"
    if n in ('"NULL"', "NULL", "UNKNOWN"):
        return "noclaim"
    return "other:" + n.split("(")[0]


def inferred_class(node):
    from sqlglot import exp

    t = node.type
    if t is None:
        return "noclaim", None
    name = t.this.name if hasattr(t.this, "name") else str(t.this)
    sql = t.sql("duckdb")
    m = {
        "BOOLEAN": "bool", "TINYINT": "int", "SMALLINT": "int", "INT": "int", "BIGINT": "int", "INT128": "int", "INT256": "int", "UTINYINT": "int", "USMALLINT": "int", "UINT": "int", "UBIGINT": "int", "UINT128": "int",
        "FLOAT": "real", "DOUBLE": "real", "DECIMAL": "real", "BIGDECIMAL": "real", "VARCHAR": "text", "TEXT": "text", "CHAR": "text", "NVARCHAR": "text", "NCHAR": "text", "DATE": "date", "DATE32": "date",
        "TIMESTAMP": "timestamp", "TIMESTAMPTZ": "timestamp", "TIMESTAMPLTZ": "timestamp", "TIMESTAMPNTZ": "timestamp", "DATETIME": "timestamp", "TIMESTAMP_S": "timestamp", "TIMESTAMP_MS": "timestamp", "TIMESTAMP_NS": "timestamp",
        "INTERVAL": "interval", "UNKNOWN": "noclaim", "NULL": "noclaim",
    }
    return m.get(name, "other:" + name), sql


def _annotate(expr_sql):
    import sqlglot
    from sqlglot.optimizer.annotate_types import annotate_types
    from sqlglot.optimizer.qualify import qualify

    tree = sqlglot.parse_one(f"SELECT {expr_sql} AS x FROM ty", dialect="duckdb")
    before = tree.sql("duckdb")
    q = qualify(tree, schema=SCHEMA, dialect="duckdb")
    qsql = q.sql("duckdb")
    a = annotate_types(q, schema=SCHEMA, dialect="duckdb")
    return a, qsql, a.sql("duckdb"), before


def check_expr(expr_sql, res=None, known=None):
    """Returns list of (bucket, detail)."""
    from sqlglot import exp
    from sqlglot.errors import SqlglotError

    logging.getLogger("sqlglot").setLevel(logging.CRITICAL)
    eng, eng_name = engine_class(expr_sql)
    if eng is None:
        if res is not None:
            res.out_of_domain["duckdb-rejects"] += 1
        return []
    try:
        a, qsql, asql, _ = _annotate(expr_sql)
    except (SqlglotError, RecursionError):
        if res is not None:
            res.out_of_domain["sqlglot-error"] += 1
        return []
    except Exception as e:
        return [(f"annotate-raises|{type(e).__name__}", f"{expr_sql!r}: {type(e).__name__}: {e}")]
    fails = []
    root = a.selects[0].unalias()
    if qsql != asql:
        import difflib

        sm = difflib.SequenceMatcher(a=qsql, b=asql)
        delta = "".join(qsql[i1:i2] + ">" + asql[j1:j2] for op, i1, i2, j1, j2 in sm.get_opcodes() if op != "equal")
        kind = "cast-dropped" if "CAST(" in delta and " AS " in qsql and asql.count("CAST(") < qsql.count("CAST(") else "other"
        fails.append((f"annotation-changes-sql|{kind}|{type(root).__name__}", f"{expr_sql!r}: {qsql!r} -> {asql!r}"))
    inf, inf_sql = inferred_class(root)
    classes = ["noclaim" if inf == "noclaim" else "claimed", f"engine:{eng}"]
    agree = inf == eng or inf == "noclaim" or eng == "noclaim"
    if not agree:
        # attribute to the deepest disagreeing node whose children all agree
        node = root
        while True:
            nxt = None
            for child in node.iter_expressions():
                if not isinstance(child, exp.Condition) or isinstance(child, (exp.DataType, exp.Var, exp.Literal, exp.Interval)):
                    continue
                ci, _ = inferred_class(child)
                try:
                    ce, _ = engine_class(child.sql("duckdb").replace('"ty".', "").replace('"', ""))
                except Exception:
                    ce = None
                if ce is not None and ci not in ("noclaim", ce) and ce != "noclaim":
                    nxt = child
                    break
            if nxt is None:
                break
            node = nxt
        kids = []
        for child in node.iter_expressions():
            if isinstance(child, exp.Condition) and not isinstance(child, (exp.DataType, exp.Var)):
                kids.append(inferred_class(child)[0])
        ni, _ = inferred_class(node)
        ne, _ = engine_class(node.sql("duckdb").replace('"ty".', "").replace('"', ""))
        key = f"{type(node).__name__}|inferred:{ni}|engine:{ne}"
        operands = ",".join(kids)
        fails.append((key, f"{expr_sql!r}: annotate_types says {inf_sql} ({inf}), DuckDB says {eng_name} ({eng}); deepest disagreeing node {node.sql('duckdb')!r} with operand classes ({operands})"))
    if res is not None:
        kinds = {inferred_class(c)[0] for c in root.find_all(exp.Column)}
        res.case(core.h8(expr_sql), len(kinds) >= 2 or isinstance(root, (exp.Case, exp.Coalesce, exp.If, exp.Binary, exp.Cast)), classes + (["agrees"] if inf == eng else []))
        if inf == eng:
            res.sample({"expr": expr_sql, "type": inf_sql, "duckdb": eng_name}, cls=eng)
    return fails


def depth1():
    out = []
    cols = [c for c, _, _ in COLUMNS]
    for op in BIN_OPS:
        for a, b in itertools.product(cols, repeat=2):
            out.append(f"{a} {op} {b}")
    for f in BIN_FUNCS:
        for a, b in itertools.product(cols, repeat=2):
            out.append(f.format(a=a, b=b))
    for f in UNARY + AGGS:
        for a in cols:
            out.append(f.format(a=a))
    # a literal next to a column, in both orders: literals are classified apart from typed operands when types are merged
    lits = ["1", "2.5", "'7'", "'2020-01-01'", "NULL", "TRUE"]
    for a, b in list(itertools.product(cols, lits)) + list(itertools.product(lits, cols)):
        for op in BIN_OPS:
            out.append(f"{a} {op} {b}")
        for f in BIN_FUNCS:
            out.append(f.format(a=a, b=b))
    seen, uniq = set(), []
    for e in out:
        if e not in seen:
            seen.add(e)
            uniq.append(e)
    return uniq


@st.composite
def nested(draw, depth):
    cols = [c for c, _, _ in COLUMNS]

    def rec(d):
        if d <= 0 or draw(st.integers(0, 3)) == 0:
            return draw(st.sampled_from(cols + ["1", "2.5", "'s'", "NULL", "TRUE", "DATE '2021-01-01'"]))
        k = draw(st.integers(0, 2))
        if k == 0:
            return f"({rec(d - 1)} {draw(st.sampled_from(BIN_OPS))} {rec(d - 1)})"
        if k == 1:
            return draw(st.sampled_from(BIN_FUNCS)).format(a=rec(d - 1), b=rec(d - 1))
        return draw(st.sampled_from(UNARY)).format(a=rec(d - 1))

    e = rec(depth)
    if draw(st.integers(0, 5)) == 0:
        e = draw(st.sampled_from(AGGS)).format(a=e)
    return e


def plan(tier):
    if tier == "quick":
        return [{"kind": "exh", "part": i, "parts": 8} for i in range(8)] + [{"kind": "hyp", "n": 2500, "depth": 3}] * 8
    return [{"kind": "exh", "part": i, "parts": 8} for i in range(8)] + [{"kind": "hyp", "n": 30000, "depth": 3}] * 24 + [{"kind": "hyp", "n": 10000, "depth": 4}] * 16


def run_shard(spec, seed, res, only_bucket=None):
    if spec["kind"] == "exh":
        for i, e in enumerate(depth1()):
            if i % spec["parts"] == spec["part"]:
                for b, d in check_expr(e, res):
                    # the depth-1 table is enumerated, not sampled: its cells are keyed by the expression itself and need one hit, so
                    # a change of what ONE expression infers is reported even if its coarse (class, inferred, engine) cell is catalogued
                    b = f"d1|{b}|{e}"
                    if only_bucket is None or b == only_bucket:
                        res.fail(b, {"expr": e, "d1": True}, d)
        res.extra["depth1_expressions"] = len(depth1()) if spec["part"] == 0 else 0
        if res.evaluations and res.classes["noclaim"] > 0.05 * res.evaluations:
            # "no claim" must stay the exception: an annotator that answers UNKNOWN everywhere would otherwise pass vacuously
            res.fail("unknown-ceiling-exceeded", {"expr": "<depth-1 table>"}, f"{res.classes['noclaim']} of {res.evaluations} depth-1 expressions were inferred as UNKNOWN/NULL (ceiling 5%)")
        res.exhaustive = False
        return None
    return core.drive(nested(spec["depth"]).map(lambda e: {"expr": e}), lambda c, r: check_expr(c["expr"], r), seed, spec["n"], res, only_bucket)


def replay(case):
    if case.get("d1"):
        return [(f"d1|{b}|{case['expr']}", d) for b, d in check_expr(case["expr"], None)]
    return check_expr(case["expr"], None)


def frequency_floor(bucket, evaluations=0):
    """Cells (node class, inferred class, engine class) not in the catalogue are violations at a rate >= 2e-4 of the run (and >= 3 hits): the
    randomly nested stream keeps producing ill-typed operand combinations that DuckDB coerces in yet another way at rates of 1e-5
    (two 240k-case campaigns still differed in ~30 single-digit cells), while the exhaustive depth-1 table is stable and every seeded
    inference defect shows up there with dozens of hits."""
    if bucket.startswith("d1|"):
        return 1
    return max(3, int(evaluations * 2e-4))


MIN_CLASSES = {"quick": {"claimed": 3000, "agrees": 2500}}
