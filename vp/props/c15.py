"""C15 — results are deterministic and independent of process hash seed, call order and object reuse."""
from __future__ import annotations

import json
import os
import subprocess
import sys
import tempfile

from hypothesis import strategies as st

from vp import core
from vp.gen import queries, sqlcore

ID = "C15"
LEVEL = "exploration"
RULE = (
    "Hypothesis builds a workload of (operation, dialect, input) triples: parse, transpile, pretty-print, tokenize and simplify over core-grammar statements in drawn dialects; "
    "optimize, qualify, annotate_types and lineage over typed queries with a schema in drawn dialects. Every workload runs in separate subprocesses under configurations that differ "
    "in PYTHONHASHSEED (0, 1, 4242, 'random'), in processing order (canonical, shuffled with two different seeds, reversed), in object reuse (top-level functions vs one reused "
    "Parser/Generator/Tokenizer/MappingSchema per dialect) and in interleaved 'pollution' calls in other dialects. Oracle: the output of every triple is byte-identical to the "
    "baseline configuration (hash seed 0, canonical order, fresh objects). AST diff is not part of the workload (its Keep/Move order is documented as unordered). "
    "Non-trivial = the triple's output passed through a set/dict-driven stage (optimize/simplify/qualify changed the text) or ran after >=1 earlier call in the same process with reuse; "
    "distinct = distinct (triple, configuration)."
)
ASSUMPTIONS = ["each configuration is a fresh interpreter started with its own PYTHONHASHSEED; error outcomes are compared as (exception class, message) strings"]

CONFIGS = [
    # (hashseed, order_seed, reuse, pollute)
    ("0", 0, 0, 0),  # baseline
    ("1", 11, 1, 0),
    ("4242", 23, 0, 1),
    ("random", 37, 1, 1),
]


@st.composite
def core_item(draw, depth):
    names = sqlcore.dialect_names()
    if draw(st.integers(0, 7)) == 0:
        # a construct several targets report as unsupported: exercises per-call state of a reused Generator
        from vp.props.c14 import SPICY

        part = draw(st.sampled_from([p for p in SPICY if not p.startswith(" ")]))
        return {"op": "transpile", "dialect": "", "write": draw(st.sampled_from(names)), "sql": f"SELECT {part} FROM t"}
    stmt = draw(sqlcore.statement(depth))
    op = draw(st.sampled_from(("parse", "transpile", "transpile", "pretty", "tokenize", "simplify")))
    return {"op": op, "dialect": draw(st.sampled_from(names)), "write": draw(st.sampled_from(names)), "sql": stmt["sql"]}


@st.composite
def query_item(draw):
    if draw(st.integers(0, 3)) == 0:
        # star-shaped joins: several joins that depend only on the first source sit in ONE layer of the join DAG, whose
        # topological order must not come from set iteration
        n = draw(st.integers(3, 5))
        tabs = [draw(st.sampled_from(("t", "u", "v"))) for _ in range(n)]
        key = {"t": "a", "u": "a", "v": "b"}
        joins = "".join(f" {draw(st.sampled_from(('JOIN', 'JOIN', 'LEFT JOIN')))} {tb} AS y{i} ON x1.{key[tabs[0]]} = y{i}.{key[tb]}" for i, tb in enumerate(tabs[1:], start=2))
        sel = ", ".join(f"y{i}.{key[tb]} AS o{i}" for i, tb in enumerate(tabs[1:], start=2))
        return {"op": "optimize", "dialect": draw(st.sampled_from(("duckdb", "", "postgres"))), "write": "", "sql": f"SELECT x1.{key[tabs[0]]} AS o0, {sel} FROM {tabs[0]} AS x1{joins}"}
    q = draw(queries.case("optimizer", 2))
    op = draw(st.sampled_from(("optimize", "optimize", "qualify", "annotate", "lineage")))
    return {"op": op, "dialect": draw(st.sampled_from(("duckdb", "", "postgres", "bigquery", "snowflake", "mysql", "spark", "tsql"))), "write": "", "sql": q["sql"]}


# mixed-case names used BOTH as table and as column names: a reused MappingSchema must answer each lookup like a fresh one even
# though the same spelling was normalised before as the other kind of name (BigQuery: tables case-sensitive, columns not)
SCHEMA_MAPPINGS = [
    {"Users": {"Id": "INT", "Items": "STRING", "Amount": "FLOAT64"}, "Items": {"Users": "INT", "id": "INT"}, "Amount": {"Items": "INT", "Id": "STRING"}},
    {"t": {"Users": "INT", "a": "INT"}, "Users": {"t": "INT", "A": "STRING"}},
    {"ab": {"Cd": "INT", "Ef": "STRING"}, "Cd": {"ab": "INT", "EF": "STRING"}},  # no two names of one kind collide case-insensitively
]
# UDF names collide with column spellings as well; the worker lists tables/columns in canonical order in the baseline and in a
# configuration-specific shuffled order elsewhere (a mapping is a set of registrations: its answers must not depend on that order)
SCHEMA_UDFS = [{"Amount": "STRING", "Id": "INT"}, {"Users": "INT", "a": "STRING"}, {"Ef": "INT", "ab": "STRING"}]
SCHEMA_NAMES = ("Users", "users", "USERS", "Items", "items", "Amount", "amount", "Id", "id", "ID", "t", "T", "a", "A", "ab", "AB", "Cd", "cd", "Ef", "EF")


MIX_SCHEMA = {"w": {"s": "VARCHAR", "d": "DATE", "ts": "TIMESTAMP", "n": "BIGINT", "dc": "DECIMAL", "f": "DOUBLE", "b": "BOOLEAN"}}
MIX_EXPRS = ("COALESCE({0}, {1})", "CASE WHEN b THEN {0} ELSE {1} END", "LEAST({0}, {1})", "GREATEST({0}, {1})", "IF(b, {0}, {1})", "{0} + {1}", "COALESCE({0}, '2020-01-01')", "COALESCE('1', {0})")


@st.composite
def schema_item(draw):
    if draw(st.integers(0, 3)) == 0:
        # type inference over operands of DIFFERENT type families: the coercion tables are per dialect, a dialect loaded earlier
        # (BigQuery, Hive, Databricks extend theirs) must not change what another dialect infers
        cols = ("s", "d", "ts", "n", "dc", "f")
        e = draw(st.sampled_from(MIX_EXPRS)).format(draw(st.sampled_from(cols)), draw(st.sampled_from(cols)))
        return {"op": "annmix", "dialect": draw(st.sampled_from(("", "postgres", "mysql", "duckdb", "bigquery", "hive", "databricks", "snowflake"))), "write": "", "sql": f"SELECT {e} AS c FROM w"}
    m = draw(st.integers(0, len(SCHEMA_MAPPINGS) - 1))
    kind = draw(st.sampled_from(("cols", "type", "type", "has", "optimize", "udf", "udf")))
    return {"op": "schema", "dialect": draw(st.sampled_from(("bigquery", "bigquery", "snowflake", "postgres", "mysql", "duckdb", ""))), "write": "", "sql": "", "m": m, "kind": kind,
            "table": draw(st.sampled_from(SCHEMA_NAMES)), "col": draw(st.sampled_from(SCHEMA_NAMES))}


def _run_config(path, cfg):
    hs, order_seed, reuse, pollute = cfg
    env = dict(os.environ)
    if hs == "random":
        env.pop("PYTHONHASHSEED", None)
        env["PYTHONHASHSEED"] = "random"
    else:
        env["PYTHONHASHSEED"] = hs
    p = subprocess.run([sys.executable, "-B", "-m", "vp.workers.c15_worker", path, str(order_seed), str(reuse), str(pollute)], capture_output=True, text=True, env=env, timeout=float(os.environ.get("VERIF_C15_WORKER_TIMEOUT_S", "600")))
    if p.returncode != 0:
        raise RuntimeError(f"worker failed: {p.stderr[-2000:]}")
    return json.loads(p.stdout)


def check_workload(work, res=None, configs=CONFIGS):
    fd, path = tempfile.mkstemp(suffix=".json", prefix="vp_c15_")
    fails = []
    try:
        with os.fdopen(fd, "w") as f:
            json.dump(work, f)
        outs = [_run_config(path, c) for c in configs]
    finally:
        try:
            os.remove(path)
        except OSError:
            pass
    base = outs[0]
    items = work["items"]
    for ci, out in enumerate(outs[1:], start=1):
        for k, v in base.items():
            it = items[int(k)]
            changed = it["op"] in ("optimize", "simplify", "qualify", "lineage", "annotate", "schema", "annmix")
            if res is not None:
                res.case(core.h8([it, configs[ci]]), bool(changed or configs[ci][2]), [f"op:{it['op']}", f"config:{ci}"])
            if out.get(k) != v:
                cfg = configs[ci]
                what = "hashseed" if not (cfg[1] or cfg[2] or cfg[3]) else "order/reuse/hashseed"
                fails.append((f"nondeterministic|{it['op']}", f"{it} under config hashseed={cfg[0]} order_seed={cfg[1]} reuse={cfg[2]} pollute={cfg[3]}: baseline {v[:300]!r} vs {str(out.get(k))[:300]!r}"))
    if res is not None and not fails:
        for it in items[:3]:
            res.sample({"op": it["op"], "dialect": it["dialect"], "sql": it["sql"][:120]}, cls=it["op"])
    # one report per op is enough
    seen, out_f = set(), []
    for b, d in fails:
        if b not in seen:
            seen.add(b)
            out_f.append((b, d))
    return out_f


def plan(tier):
    return [{"core": 110, "query": 40, "schema": 60, "depth": 3}] * 16 if tier == "quick" else [{"core": 1500, "query": 500, "schema": 600, "depth": 3}] * 32


def run_shard(spec, seed, res, only_bucket=None):
    # the workload is drawn item by item from Hypothesis strategies; the configurations then run it in subprocesses
    items: list = []
    scratch = core.Res()
    core.drive(core_item(spec["depth"]), lambda it, r: items.append(it) or [], seed, spec["core"], scratch)
    core.drive(query_item(), lambda it, r: items.append(it) or [], seed + 1, spec["query"], scratch)
    core.drive(schema_item(), lambda it, r: items.append(it) or [], seed + 2, spec.get("schema", 0), scratch)
    work = {"items": items, "schema": queries.schema_dict(), "mappings": SCHEMA_MAPPINGS, "udfs": SCHEMA_UDFS, "mix_schema": MIX_SCHEMA}
    fails = check_workload(work, res)
    for b, d in fails:
        res.fail(b, work, d)
    return None


def replay(case):
    return check_workload(case, None)


def minimize(case, bucket):
    """ddmin over the workload items while the same bucket still fails (configs kept)."""
    items = core.ddmin(list(case["items"]), lambda sub: any(b == bucket for b, _ in check_workload(dict(case, items=sub), None)), budget=10)
    return dict(case, items=items)


HYP_SHRINK = False
MIN_CLASSES = {"quick": {"op:optimize": 300, "op:transpile": 500, "op:schema": 1500, "config:3": 1000}}
