"""C04 — quoting of strings, identifiers and comments is lossless and inescapable (oracle: the dialect's own tokenizer)."""
from __future__ import annotations

import itertools
import logging

from hypothesis import strategies as st

from vp import core
from vp.gen import sqlcore

ID = "C04"
LEVEL = "exploration"
RULE = (
    "Values v are built from an adversarial alphabet (every quote / identifier delimiter / escape / comment marker / format-string prefix of all dialects, backslash, "
    "NUL, CR, LF, tab, $, brackets, Jinja markers, bidi/combining/astral code points, the generator's line-break sentinel): the product alphabet^<=2 (thorough: ^<=3 over a "
    "reduced alphabet) is enumerated exhaustively for every dialect for string literals and quoted identifiers, and Hypothesis draws longer mixed texts for all kinds "
    "{Literal.string, exp.convert, National, RawString, quoted identifier, auto-quoted identifier, column(v, table=v2), builder WHERE c = v, comments} x {pretty, identify}. "
    "Oracle: Dialect(d).tokenize(generated SQL) yields exactly one token of the right kind whose text is v; a statement built through the builder API with v has the same "
    "token-type sequence as with v='a' and v is the only differing token; a comment carrying v leaves the (type, text) token sequence of the statement unchanged. "
    "Non-trivial = v contains a character of the dialect's delimiter/escape/comment alphabet; distinct = distinct (v, dialect, kind, options)."
)
ASSUMPTIONS = [
    "the dialect's own tokenizer is the judge, as the property states; escape rules are not re-implemented",
    "kinds a dialect cannot express (raises UnsupportedError/ValueError at construction) are out of domain",
]

ALPHA = [
    "'", '"', "`", "\\", "\n", "\r", "\t", "\0", "$", "[", "]", "{", "}", "--", "/*", "*/", "#", "a", " ", "%", "_", ";", "é", "\U0001F600", "{#", "#}", "{{", "}}", "@", "?", ":",
    "q'[", "$$", "N'", "b'", "r'", "x'", "e'", "__SQLGLOT__LB__", "\x1b", "‮", "\\n", "\\'", "''", "́", "//", "\\\\", "$tag$", "U&'", "\r\n",
]
CORE = ALPHA[:22]
KINDS = ("string", "convert", "national", "raw", "ident-quoted", "ident-auto", "column", "where", "comment")
SENTINEL = "__SQLGLOT__LB__"


def _tok(d, sql):
    from sqlglot.dialects.dialect import Dialect

    return Dialect.get_or_raise(d or None).tokenize(sql)


def _special_chars(d):
    from sqlglot.dialects.dialect import Dialect

    tk = Dialect.get_or_raise(d or None).tokenizer_class
    chars = set("\\\n\r\0")
    for attr in ("QUOTES", "IDENTIFIERS", "STRING_ESCAPES", "IDENTIFIER_ESCAPES", "COMMENTS", "BYTE_STRINGS", "RAW_STRINGS", "HEX_STRINGS", "HEREDOC_STRINGS", "UNICODE_STRINGS"):
        for x in getattr(tk, attr, []) or []:
            for y in x if isinstance(x, tuple) else (x,):
                if y:
                    chars.update(y)
    return chars


_SPECIAL: dict = {}


def check_value(v: str, d: str, kind: str, opts: dict, strict=False):
    """Returns (status, bucket, detail); status in ok / ood / excluded:<kf> / fail."""
    import sqlglot
    from sqlglot import exp
    from sqlglot.errors import SqlglotError
    from sqlglot.tokens import TokenType

    dd = d or None
    IGN = sqlglot.ErrorLevel.IGNORE
    if not strict:
        if d == "athena" and "\\" in v and kind in ("string", "convert", "national", "raw", "where"):
            return "excluded:C04-athena-backslash-string", None, None
        if SENTINEL in v and opts.get("pretty"):
            return "excluded:C04-sentinel-in-user-text", None, None
    try:
        if kind in ("string", "convert", "national", "raw"):
            node = {"string": lambda: exp.Literal.string(v), "convert": lambda: exp.convert(v), "national": lambda: exp.National(this=v), "raw": lambda: exp.RawString(this=v)}[kind]()
            sql = node.sql(dialect=dd, unsupported_level=IGN, **opts)
            toks = _tok(d, sql)
            allowed = {"string": {TokenType.STRING}, "convert": {TokenType.STRING}, "national": {TokenType.STRING, TokenType.NATIONAL_STRING}, "raw": {TokenType.STRING, TokenType.RAW_STRING}}[kind]
            if len(toks) == 1 and toks[0].token_type in allowed and toks[0].text == v:
                return "ok", None, None
            return "fail", f"{kind}|{d or 'base'}", f"{kind} {v!r} ({d or 'base'}, {opts}) -> {sql!r} lexes as {[(t.token_type.name, t.text) for t in toks][:4]}"
        if kind in ("ident-quoted", "ident-auto"):
            if v == "":
                return "ood", None, None
            node = exp.to_identifier(v, quoted=True) if kind == "ident-quoted" else exp.to_identifier(v)
            sql = node.sql(dialect=dd, unsupported_level=IGN, **opts)
            toks = _tok(d, sql)
            if kind == "ident-quoted":
                ok = len(toks) == 1 and toks[0].token_type in (TokenType.IDENTIFIER, TokenType.VAR) and toks[0].text == v
            else:
                ok = len(toks) == 1 and toks[0].text.lower() == v.lower()
            if ok:
                return "ok", None, None
            return "fail", f"{kind}|{d or 'base'}", f"{kind} {v!r} ({d or 'base'}, {opts}) -> {sql!r} lexes as {[(t.token_type.name, t.text) for t in toks][:4]}"
        if kind in ("ident-temp", "ident-global-temp"):
            # T-SQL / Fabric: a quoted identifier flagged as (global) temporary object is written [#name] / [##name]
            if v == "" or d not in ("tsql", "fabric"):
                return "ood", None, None
            marker = "#" if kind == "ident-temp" else "##"
            node = exp.Identifier(this=v, quoted=True, **{"temporary" if kind == "ident-temp" else "global_": True})
            sql = node.sql(dialect=dd, unsupported_level=IGN, **opts)
            toks = _tok(d, sql)
            if len(toks) == 1 and toks[0].token_type in (TokenType.IDENTIFIER, TokenType.VAR) and toks[0].text == marker + v:
                return "ok", None, None
            return "fail", f"{kind}|{d or 'base'}", f"{kind} {v!r} ({d or 'base'}, {opts}) -> {sql!r} lexes as {[(t.token_type.name, t.text) for t in toks][:4]}"
        if kind in ("column", "where"):
            def build(x):
                if kind == "column":
                    return exp.select(exp.column(x, table=x, quoted=True)).from_("t").where("1 = 1")
                return exp.select("a").from_("t").where(exp.column("c").eq(x)).order_by("a")

            if kind == "column" and v == "":
                return "ood", None, None
            s1 = build(v).sql(dialect=dd, unsupported_level=IGN, **opts)
            s0 = build("a").sql(dialect=dd, unsupported_level=IGN, **opts)
            t1, t0 = _tok(d, s1), _tok(d, s0)
            same_shape = [t.token_type for t in t1] == [t.token_type for t in t0]
            diff = [(a.text, b.text) for a, b in zip(t0, t1) if a.text != b.text]
            ok = same_shape and all(a == "a" and b == v for a, b in diff)
            if ok:
                return "ok", None, None
            return "fail", f"{kind}|{d or 'base'}", f"builder {kind} with {v!r} ({d or 'base'}, {opts}): {s1!r} lexes as {[(t.token_type.name, t.text) for t in t1][:12]} vs baseline {s0!r}"
        if kind == "comment":
            if v == "":
                return "ood", None, None
            base = sqlglot.parse_one("SELECT a, b + 1 AS c FROM t WHERE x = 'y' ORDER BY a")
            s0 = base.sql(dialect=dd, unsupported_level=IGN, **opts)
            nodes = list(base.walk())
            nodes[len(v) * 7 % len(nodes)].add_comments([v])
            s1 = base.sql(dialect=dd, unsupported_level=IGN, **opts)
            t1, t0 = _tok(d, s1), _tok(d, s0)
            if [(t.token_type, t.text) for t in t1] == [(t.token_type, t.text) for t in t0]:
                s2 = base.sql(dialect=dd, unsupported_level=IGN, comments=False, **opts)
                t2 = _tok(d, s2)
                if any(t.comments for t in t2) or [(t.token_type, t.text) for t in t2] != [(t.token_type, t.text) for t in t0]:
                    return "fail", f"comment-off|{d or 'base'}", f"comments=False with comment {v!r} ({d or 'base'}): {s2!r}"
                return "ok", None, None
            return "fail", f"comment|{d or 'base'}", f"comment {v!r} ({d or 'base'}, {opts}) changes tokens: {s1!r} vs {s0!r}"
    except SqlglotError as e:
        if "TokenError" in type(e).__name__:
            return "fail", f"{kind}|{d or 'base'}|TokenError", f"{kind} {v!r} ({d or 'base'}, {opts}): generated SQL does not lex: {str(e)[:200]}"
        return "ood", None, None
    except (ValueError, TypeError) as e:
        return "fail", f"{kind}|{d or 'base'}|{type(e).__name__}", f"{kind} {v!r} ({d or 'base'}, {opts}): {e}"
    raise ValueError(kind)


def _record(res, v, d, kind, opts, status, bucket, detail):
    if d not in _SPECIAL:
        _SPECIAL[d] = _special_chars(d)
    nontrivial = any(ch in _SPECIAL[d] for ch in v)
    if status.startswith("excluded:"):
        res.excluded[status.split(":", 1)[1]] += 1
        return
    if status == "ood":
        res.out_of_domain[f"{kind}-not-expressible"] += 1
        return
    res.case(core.h8([v, d, kind, opts]), nontrivial, [f"kind:{kind}"] + (["pretty"] if opts.get("pretty") else []) + (["identify"] if opts.get("identify") else []))
    if status == "fail":
        res.fail(bucket, {"v": v, "dialect": d, "kind": kind, "opts": opts}, detail)
    elif nontrivial:
        res.sample({"v": v, "dialect": d, "kind": kind}, cls=f"{kind}:{d}")


def exhaustive(res, alpha, length, part, parts):
    vals = [""] + ["".join(p) for n in range(1, length + 1) for p in itertools.product(alpha, repeat=n)]
    names = sqlcore.dialect_names()
    n = 0
    for i, d in enumerate(names):
        if i % parts != part:
            continue
        for v in vals:
            for kind in ("string", "ident-quoted") + (("ident-temp", "ident-global-temp") if d in ("tsql", "fabric") else ()):
                st_, b, det = check_value(v, d, kind, {})
                _record(res, v, d, kind, {}, st_, b, det)
                n += 1
        # auto-quoted identifiers: the decision "safe to emit bare" is where a harmless-looking name with ONE odd character at
        # either end (trailing newline, leading digit, NUL ...) slips through: every token of the alphabet before / after a word
        for a in alpha if length <= 2 else ():
            for v in ("abc" + a, a + "abc", "A" + a, "a_1" + a):
                for kind in ("ident-auto", "column"):
                    st_, b, det = check_value(v, d, kind, {})
                    _record(res, v, d, kind, {}, st_, b, det)
                    n += 1
    res.extra["exhaustive_cells"] = n


@st.composite
def cases(draw):
    n = draw(st.integers(0, 6))
    parts = [draw(st.one_of(st.sampled_from(ALPHA), st.text(max_size=3), st.sampled_from(["abc", "It's", "x y", "100%"]))) for _ in range(n)]
    v = "".join(parts)
    opts = {}
    if draw(st.integers(0, 3)) == 0:
        opts["pretty"] = True
    if draw(st.integers(0, 5)) == 0:
        opts["identify"] = True
    return {"v": v, "dialects": draw(st.lists(st.sampled_from(sqlcore.dialect_names()), min_size=3, max_size=3, unique=True)), "kinds": draw(st.lists(st.sampled_from(KINDS), min_size=3, max_size=3, unique=True)), "opts": opts}


def _body(case, res):
    fails = []
    for d in case["dialects"]:
        for kind in case["kinds"]:
            st_, b, det = check_value(case["v"], d, kind, case["opts"])
            if st_.startswith("excluded:"):
                res.excluded[st_.split(":", 1)[1]] += 1
                continue
            if st_ == "ood":
                res.out_of_domain[f"{kind}-not-expressible"] += 1
                continue
            if d not in _SPECIAL:
                _SPECIAL[d] = _special_chars(d)
            nontrivial = any(ch in _SPECIAL[d] for ch in case["v"])
            res.case(core.h8([case["v"], d, kind, case["opts"]]), nontrivial, [f"kind:{kind}"] + (["pretty"] if case["opts"].get("pretty") else []))
            if st_ == "fail":
                fails.append((b, det))
            elif nontrivial:
                res.sample({"v": case["v"], "dialect": d, "kind": kind}, cls=kind)
    return fails


def plan(tier):
    logging.getLogger("sqlglot").setLevel(logging.CRITICAL)
    if tier == "quick":
        return [{"kind": "exh", "alpha": "full", "len": 2, "part": i, "parts": 12} for i in range(12)] + [{"kind": "hyp", "n": 1500}] * 8
    return [{"kind": "exh", "alpha": "full", "len": 2, "part": i, "parts": 17} for i in range(17)] + [{"kind": "exh", "alpha": "core16", "len": 3, "part": i, "parts": 17} for i in range(17)] + [{"kind": "hyp", "n": 8000}] * 14


def run_shard(spec, seed, res, only_bucket=None):
    logging.getLogger("sqlglot").setLevel(logging.CRITICAL)
    if spec["kind"] == "hyp":
        return core.drive(cases(), _body, seed, spec["n"], res, only_bucket)
    alpha = {"full": ALPHA, "core": CORE, "core16": CORE[:16]}[spec["alpha"]]
    exhaustive(res, alpha, spec["len"], spec["part"], spec["parts"])
    res.exhaustive = False
    return None


def replay(case):
    if "kinds" in case:
        out = []
        for d in case["dialects"]:
            for kind in case["kinds"]:
                st_, b, det = check_value(case["v"], d, kind, case.get("opts", {}), strict=bool(case.get("strict")))
                if st_ == "fail":
                    out.append((b, det))
        return out
    st_, b, det = check_value(case["v"], case["dialect"], case["kind"], case.get("opts", {}), strict=bool(case.get("strict")))
    return [(b, det)] if st_ == "fail" else []


HYP_SHRINK = True
MIN_CLASSES = {"quick": {"kind:string": 5000, "kind:ident-quoted": 5000, "kind:comment": 500, "kind:where": 500}}
