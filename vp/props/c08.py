"""C08 — trees stay structurally consistent (links, no sharing, cached hashes, equality) under any edit history."""
from __future__ import annotations

import itertools
import logging

from hypothesis import strategies as st

from vp import core
from vp.gen import edits, sqlcore
from vp.oracle import fingerprint as F

ID = "C08"
LEVEL = "exploration"
RULE = (
    "Histories: Hypothesis generates a start tree (core grammar or a small repetitive tree) and a sequence of 1-25 public operations (set scalar/list/None, "
    "set with index and overwrite, append, replace by node/list, pop, transform copy/in-place/delete, replace_children, replace_tables, builder methods "
    "copy/in-place, copy) interleaved with hash()/==/set-membership probes that fill caches; node positions cover scalar args, first/middle/last list "
    "elements and the root. After EVERY step: each child records exactly the parent/arg_key/index under which it is stored, no node is stored twice, "
    "hash(node) equals the hash of an independently rebuilt copy for every node, and a == b agrees with an independent structural fingerprint for probe "
    "pairs. All histories of length <=3 over two 5-node trees and a reduced operation set are enumerated exhaustively. Outputs: trees returned by "
    "parse_one in all 34 dialects and by every optimizer rule (applied cumulatively after qualify) are checked with the same invariants. Non-trivial = "
    "a hash/== probe precedes a mutation of a descendant of the probed node (histories) or the tree has >=10 nodes (outputs); distinct = distinct histories / (statement, dialect)."
)
ASSUMPTIONS = [
    "an operation the API refuses with an exception is skipped, the invariants are still checked afterwards",
    "hash collisions of Python's tuple hash are ignored",
]
SMALL = ("SELECT foo(), a FROM t", "SELECT a FROM t WHERE f() > g(1)", "SELECT a, b FROM t", "a + b * c", "f(x, y, z)", "SELECT a FROM t WHERE x = 1 AND y = 2", "CASE WHEN a THEN b ELSE c END", "x IN (1, 2, 3)")
MUT = tuple(o for o in edits.OPS)


@st.composite
def histories(draw, depth, max_len):
    k = draw(st.integers(0, 9))
    start = draw(st.sampled_from(SMALL)) if k < 5 else draw(sqlcore.statement(depth, only="select" if k < 8 else None))["sql"]
    n = draw(st.integers(1, max_len))
    return {"start": start, "ops": [draw(edits.edit(MUT)) for _ in range(n)], "probe": draw(st.integers(0, 30))}


def _invariants(tree, step, note):
    le = F.link_errors(tree)
    if le:
        return [(f"links|{note.split('@')[0]}", f"after step {step} ({note}): {le[:2]}")]
    he = F.hash_errors(tree)
    if he:
        return [(f"stale-hash|{note.split('@')[0]}", f"after step {step} ({note}): {he[:2]}")]
    return []


def run_history(case, res=None):
    import sqlglot
    from sqlglot.errors import SqlglotError

    logging.getLogger("sqlglot").setLevel(logging.CRITICAL)
    try:
        root = sqlglot.parse_one(case["start"])
    except SqlglotError:
        return []
    witness = root.copy()
    witness_fp = F.fingerprint(witness)
    fails = []
    hashed_nodes: dict = {}
    nontrivial = False
    for i, op in enumerate(case["ops"]):
        try:
            target = edits._pick(root, op)
        except Exception:
            target = None
        if op["op"] in ("hash", "eq") and target is not None:
            for n in [target] + list(_ancestors(target)):
                hashed_nodes[id(n)] = n
        elif target is not None and any(id(a) in hashed_nodes for a in _ancestors(target)):
            nontrivial = True
        note = op["op"]
        popped = None
        try:
            if op["op"] == "pop" and target is not None and target is not root:
                popped = target
            root, note = edits.apply(root, op)
        except RecursionError:
            break
        except Exception as e:
            note = f"{op['op']}:refused:{type(e).__name__}"
        if popped is not None and "refused" not in note and popped.parent is not None:
            fails.append(("detached-node-keeps-parent|pop", f"step {i} {note} in {case}"))
        f = _invariants(root, i, note)
        if not f:
            # the copy taken before the history started is never edited: it must stay intact and unchanged
            # (a copy that shares a list or a node with its original is corrupted by edits of the original)
            f = [(b.replace("links|", "copy-corrupted-links|").replace("stale-hash|", "copy-stale-hash|"), d) for b, d in _invariants(witness, i, note)]
            if not f and F.fingerprint(witness) != witness_fp:
                f = [(f"copy-changed-by-edit-of-original|{note.split('@')[0]}", f"after step {i} ({note})")]
        if f:
            fails.extend((b, f"{d} in {case}") for b, d in f)
            break
        # equality agrees with the independent fingerprint (root vs untouched witness copy, and a probe sub-node vs its copy)
        nodes = list(root.walk())
        probe = nodes[case["probe"] % len(nodes)]
        for a, b in ((root, witness), (probe, probe.copy()), (probe, nodes[(case["probe"] * 7 + 3) % len(nodes)])):
            try:
                same = F.fingerprint(a) == F.fingerprint(b) and type(a) is type(b)
                eq = a == b
            except RecursionError:
                continue
            if eq != same:
                fails.append((f"eq-disagrees-with-structure|{note.split('@')[0]}", f"step {i} {note}: == says {eq}, structure says {same}: {F.safe_sql(a)!r} vs {F.safe_sql(b)!r} in {case}"))
                break
        if fails:
            break
    if res is not None:
        res.case(core.h8(case), nontrivial, [f"op:{o['op']}" for o in case["ops"]] + (["probe-before-mutation"] if nontrivial else []))
        if not fails and nontrivial:
            res.sample({"start": case["start"], "ops": [o["op"] for o in case["ops"]]}, cls=str(len(case["ops"]) // 5))
    return fails


def _ancestors(n):
    while n is not None:
        yield n
        n = n.parent


# --- outputs of the parser and of the optimizer rules -----------------------------------------------

SCHEMA = {t: {c: ty for c, ty in zip(sqlcore.COLS, ("INT", "INT", "DOUBLE", "VARCHAR", "BIGINT", "VARCHAR", "TIMESTAMP"))} for t in ("t", "u", "orders", "x")}


@st.composite
def output_cases(draw, depth):
    stmt = draw(sqlcore.statement(depth))
    return {"sql": stmt["sql"], "kind": stmt["kind"], "features": stmt["features"]}


def check_outputs(case, res=None):
    import sqlglot
    from sqlglot.errors import SqlglotError
    from sqlglot.optimizer.optimizer import RULES

    logging.getLogger("sqlglot").setLevel(logging.CRITICAL)
    fails = []
    for d in case.get("dialects") or sqlcore.dialect_names():
        try:
            tree = sqlglot.parse_one(case["sql"], dialect=d or None)
        except (SqlglotError, RecursionError):
            if res is not None:
                res.out_of_domain["does-not-parse-in-dialect"] += 1
            continue
        le = F.link_errors(tree)
        if le:
            fails.append((f"parser-output-links|{d or 'base'}|{le[0].split(':')[0].split('[')[0]}", f"{d or 'base'} {case['sql']!r}: {le[:2]}"))
        else:
            he = F.hash_errors(tree)
            if he:
                fails.append((f"parser-output-stale-hash|{d or 'base'}", f"{d or 'base'} {case['sql']!r}: {he[:2]}"))
        if res is not None:
            res.case(core.h8([case["sql"], d]), F.count_nodes(tree) >= 10, ["parser-output", f"dialect:{d or 'base'}"])
    if case.get("kind") == "select" and not case.get("dialects"):
        try:
            tree = sqlglot.parse_one(case["sql"])
        except SqlglotError:
            return fails
        cur = tree
        for rule in RULES:
            import inspect

            params = inspect.getfullargspec(rule).args
            kw = {k: v for k, v in {"schema": sqlglot.schema.ensure_schema(SCHEMA), "dialect": None, "validate_qualify_columns": False, "quote_identifiers": False, "isolate_tables": True}.items() if k in params}
            try:
                hash(cur)  # caches are populated before the rule mutates
                cur = rule(cur, **kw)
            except SqlglotError:
                break
            except RecursionError:
                break
            except Exception:
                break  # crashes on unqualifiable input are C05/C03's subject
            le = F.link_errors(cur)
            if le:
                fails.append((f"rule-output-links|{rule.__name__}", f"{case['sql']!r}: {le[:2]}"))
                break
            he = F.hash_errors(cur)
            if he:
                fails.append((f"rule-output-stale-hash|{rule.__name__}", f"{case['sql']!r}: {he[:2]}"))
                break
            if res is not None:
                res.case(core.h8([case["sql"], rule.__name__]), True, [f"rule-output:{rule.__name__}"])
    return fails


# --- bounded-exhaustive short histories ---------------------------------------------------------------

EXH_TREES = ("a + b", "f(x, y)")
EXH_OPS = ("hash", "replace", "pop", "set_this", "append", "set_index", "set_index_overwrite", "set_none", "transform_inplace", "copy_root", "replace_by_list")


def exhaustive(res, length, part=0, parts=1):
    specs = [{"op": o, "node": n, "new": 0, "idx": i, "flag": fl} for o in EXH_OPS for n in range(4) for i in (0, 1) for fl in (False, True) if not (o in ("hash", "pop", "copy_root", "set_this") and (i or fl))]
    count = 0
    for start in EXH_TREES:
        # sharded by the first operation so the thorough tier spreads the enumeration over all cores
        for hist in itertools.product([sp for i, sp in enumerate(specs) if i % parts == part], *([specs] * (length - 1))):
            case = {"start": start, "ops": list(hist), "probe": 1}
            for b, d in run_history(case, res):
                res.fail(b, case, d)
            count += 1
    return count


def corpus(res, part, parts):
    """Seed corpus: the repository's own identity fixtures (far wider than the core grammar), every dialect."""
    import os

    path = os.path.join(core.REPO, "tests", "fixtures", "identity.sql")
    if not os.path.exists(path):
        res.extra["corpus_missing"] = 1
        return
    lines = [l.strip() for l in open(path) if l.strip() and not l.startswith("--")]
    for i, sql in enumerate(lines):
        if i % parts != part:
            continue
        case = {"sql": sql, "kind": "corpus", "features": []}
        for b, d in check_outputs(case, res):
            res.fail(b, dict(case, dialects=[b.split("|")[1] if b.split("|")[1] != "base" else ""] if b.startswith("parser-output") else None), d)


def plan(tier):
    if tier == "quick":
        return [{"kind": "hist", "n": 260, "depth": 3, "len": 25}] * 10 + [{"kind": "out", "n": 60, "depth": 3}] * 4 + [{"kind": "exh", "len": 2}] + [{"kind": "corpus", "part": i, "parts": 4} for i in range(4)]
    return [{"kind": "hist", "n": 1500, "depth": 3, "len": 40}] * 32 + [{"kind": "out", "n": 400, "depth": 4}] * 14 + [{"kind": "exh", "len": 3, "part": i, "parts": 32} for i in range(32)] + [{"kind": "corpus", "part": i, "parts": 8} for i in range(8)]


def run_shard(spec, seed, res, only_bucket=None):
    if spec["kind"] == "hist":
        return core.drive(histories(spec["depth"], spec["len"]), run_history, seed, spec["n"], res, only_bucket)
    if spec["kind"] == "out":
        return core.drive(output_cases(spec["depth"]), check_outputs, seed, spec["n"], res, only_bucket)
    if spec["kind"] == "corpus":
        corpus(res, spec["part"], spec["parts"])
        return None
    n = exhaustive(res, spec["len"], spec.get("part", 0), spec.get("parts", 1))
    res.extra["exhaustive_histories"] = n
    res.exhaustive = False  # only the short-history sub-space is exhaustive, see coverage.exhaustive_histories
    return None


def replay(case):
    if "ops" in case:
        return run_history(case, None)
    return check_outputs(case, None)


MIN_CLASSES = {"quick": {"probe-before-mutation": 300, "parser-output": 3000}}
