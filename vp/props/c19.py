"""C19 — concurrent use from many threads (cold start, forced pre-emption) gives the single-threaded answers."""
from __future__ import annotations

import json
import os
import subprocess
import sys
import tempfile

from hypothesis import strategies as st

from vp import core
from vp.gen import queries, sqlcore

ID = "C19"
LEVEL = "exploration"
RULE = (
    "A schedule case = (thread count N in {2,4,8,16}, a generated processing order per thread over a workload that touches EVERY dialect for the first time (Dialect lookup, lazy "
    "module attribute, tokenize, parse, transpile, optimize, lazy optimizer attributes), a schedule-control layer and its parameters). Every case runs in a FRESH interpreter "
    "(cold imports, empty dialect registry, empty generator dispatch cache, unresolved lazy attributes). Layer L1: all threads released from one barrier with "
    "sys.setswitchinterval(1e-6). Layer L2: additionally a sys.settrace tracer that is active only inside the first-use functions (dialects.__getattr__, _Dialect._try_load/get/"
    "__getitem__, optimizer.__getattr__, Generator.__init__, _build_dispatch) sleeps for generated 0-2 ms at generated line events, which widens exactly the race windows the "
    "property names. Oracle: every result (or error class) of every thread equals the sequential baseline computed in a separate fresh process; no thread dies; no internal "
    "exception appears that the baseline does not have; every sqlglot module body is executed exactly once. Non-trivial = >=2 threads were observed inside a first-use function "
    "at the same time (L2) or the case ran >=4 threads on a cold interpreter (L1); distinct = distinct schedule cases."
)
ASSUMPTIONS = [
    "interleavings are sampled, not enumerated: a race whose window lies outside the traced functions and is narrower than the import lock's is not covered (stated in DESIGN.md §C19)",
    "reproduction of a failing schedule is probabilistic; the replay command reruns the saved case several times",
]
HYP_SHRINK = False
OPT_ATTRS = ("optimize", "Scope", "build_scope", "traverse_scope", "qualify", "simplify", "annotate_types")


def _workload():
    names = [n for n in sqlcore.dialect_names() if n]
    items = []
    sqls = ("SELECT a + 1 AS b, COUNT(*) FROM t WHERE c IN (1, 2) GROUP BY 1 ORDER BY 2 DESC LIMIT 3", "SELECT CAST(x AS VARCHAR) || 'a', COALESCE(y, 0) FROM u JOIN v USING (k)", "WITH q AS (SELECT 1 AS a) SELECT a FROM q UNION ALL SELECT 2")
    for i, d in enumerate(names):
        items.append({"op": "dialect", "dialect": d, "sql": ""})
        items.append({"op": "attr", "dialect": d, "sql": d.capitalize() if d not in ("bigquery", "clickhouse", "duckdb", "mysql", "tsql", "sqlite", "risingwave", "singlestore", "starrocks", "spark2", "prql", "dax") else {"bigquery": "BigQuery", "clickhouse": "ClickHouse", "duckdb": "DuckDB", "mysql": "MySQL", "tsql": "TSQL", "sqlite": "SQLite", "risingwave": "RisingWave", "singlestore": "SingleStore", "starrocks": "StarRocks", "spark2": "Spark2", "prql": "PRQL", "dax": "DAX"}[d]})
        items.append({"op": "transpile", "dialect": d, "write": names[(i * 7 + 3) % len(names)], "sql": sqls[i % 3]})
        items.append({"op": "parse", "dialect": d, "sql": sqls[(i + 1) % 3]})
        items.append({"op": "tokenize", "dialect": d, "sql": sqls[(i + 2) % 3]})
    for a in OPT_ATTRS:
        items.append({"op": "optattr", "dialect": "", "sql": a})
    items.append({"op": "optimize", "dialect": "duckdb", "schema": queries.schema_dict(), "sql": "SELECT x1.a AS o0 FROM t AS x1 JOIN u AS x2 ON x1.a = x2.a WHERE x1.b > 1"})
    items.append({"op": "optimize", "dialect": "", "schema": queries.schema_dict(), "sql": "SELECT a FROM (SELECT a, b FROM t) AS s WHERE b = 1"})
    return items


ITEMS = _workload()


@st.composite
def cases(draw):
    n = draw(st.sampled_from((2, 4, 8, 16, 16)))
    layer = draw(st.sampled_from(("L1", "L2", "L2", "both")))
    orders = []
    idx = list(range(len(ITEMS)))
    # order modes: independent permutations rarely make two threads want the SAME dialect within the few milliseconds its class is
    # being built; 'same' (one permutation for all, threads drift apart through delays) and 'rotated' (thread k starts k*r items
    # later in the same cyclic order) put a second thread right behind the first user of every dialect
    mode = draw(st.sampled_from(("random", "same", "rotated", "rotated")))
    if mode == "random":
        for _ in range(n):
            orders.append(draw(st.permutations(idx)))
    else:
        base = list(draw(st.permutations(idx)))
        r = draw(st.integers(1, 4)) if mode == "rotated" else 0
        for k in range(n):
            off = (k * r) % len(base)
            orders.append(base[off:] + base[:off])
    dense = layer != "L1" and draw(st.booleans())
    n_delays = draw(st.integers(200, 400)) if dense else draw(st.integers(10, 120))
    delays = [[draw(st.integers(0, 996)), draw(st.sampled_from((0.2, 0.5, 1, 2)))] for _ in range(n_delays)] if layer != "L1" else []
    return {"threads": n, "layer": layer, "orders": [list(o) for o in orders], "delays": delays, "switch": draw(st.sampled_from((1e-6, 1e-5, 5e-3))), "mode": mode}


def _run(case):
    fd, path = tempfile.mkstemp(suffix=".json", prefix="vp_c19_")
    try:
        with os.fdopen(fd, "w") as f:
            json.dump(dict(case, items=ITEMS), f)
        env = dict(os.environ)
        p = subprocess.run([sys.executable, "-B", "-m", "vp.workers.c19_worker", path], capture_output=True, text=True, env=env, timeout=float(os.environ.get("VERIF_C19_WORKER_TIMEOUT_S", "600")))
    finally:
        try:
            os.remove(path)
        except OSError:
            pass
    if p.returncode != 0:
        return {"crash": p.stderr[-1500:]}
    try:
        return json.loads(p.stdout)
    except ValueError:
        return {"crash": "unparseable worker output: " + p.stdout[-500:] + p.stderr[-500:]}


_BASE = None


def baseline():
    global _BASE
    if _BASE is None:
        _BASE = _run({"threads": 1, "layer": "seq", "orders": [], "delays": []})
        if "crash" in _BASE:
            raise RuntimeError("sequential baseline failed: " + _BASE["crash"])
    return _BASE


def check_case(case, res=None):
    base = baseline()
    try:
        out = _run(case)
    except subprocess.TimeoutExpired:
        return [("worker-timeout-possible-deadlock", f"threads={case['threads']} layer={case['layer']}: worker did not finish")]
    fails = []
    label = f"threads={case['threads']} layer={case['layer']} switch={case['switch']} delays={len(case['delays'])}"
    if "crash" in out:
        return [("worker-crashed", f"{label}: {out['crash']}")]
    if out.get("alive"):
        fails.append(("threads-still-alive-possible-deadlock", f"{label}: {out['alive']} thread(s) did not finish in 600 s"))
    for d in out.get("died", []):
        fails.append(("thread-died", f"{label}: {d}"))
    for k, r in enumerate(out["results"]):
        for i, v in r.items():
            want = base["results"][i]
            if v != want:
                it = ITEMS[int(i)]
                kind = "leak" if v.startswith("<LEAK") else "differs"
                fails.append((f"result-{kind}|{it['op']}", f"{label}: thread {k} item {it['op']}/{it['dialect']}: {v[:200]!r}, sequential baseline {want[:200]!r}"))
                break
    for m, c in out.get("exec_counts", {}).items():
        if c != 1:
            fails.append(("module-body-executed-more-than-once", f"{label}: {m} executed {c} times"))
            break
    if res is not None:
        overlap = out.get("max_inside", 0)
        nontrivial = overlap >= 2 or (case["layer"] == "L1" and case["threads"] >= 4)
        res.case(core.h8(case), bool(nontrivial), [f"layer:{case['layer']}", f"threads:{case['threads']}", f"orders:{case.get('mode', 'random')}"] + (["overlap-observed"] if overlap >= 2 else []))
        res.extra["calls_compared"] = res.extra.get("calls_compared", 0) + sum(len(r) for r in out["results"])
        res.extra["max_threads_inside_first_use_function"] = max(res.extra.get("max_threads_inside_first_use_function", 0), overlap)
        if not fails:
            res.sample({"threads": case["threads"], "layer": case["layer"], "switch": case["switch"], "delays": len(case["delays"]), "max_threads_inside_first_use": overlap}, cls=case["layer"] + str(case["threads"]))
    seen, uniq = set(), []
    for b, d in fails:
        if b not in seen:
            seen.add(b)
            uniq.append((b, d))
    return uniq


def plan(tier):
    return [{"n": 3}] * 16 if tier == "quick" else [{"n": 20}] * 16


def run_shard(spec, seed, res, only_bucket=None):
    return core.drive(cases(), check_case, seed, spec["n"], res, only_bucket)


def replay(case):
    out = []
    for _ in range(int(os.environ.get("VERIF_C19_REPLAYS", "2"))):
        out = check_case(case, None)
        if out:
            return out
    return out


MIN_CLASSES = {"quick": {"overlap-observed": 8}}
