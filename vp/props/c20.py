"""C20 — AST diff accounts for every non-identifier node exactly once; delta empty iff trees equal; inputs untouched."""
from __future__ import annotations

import logging
from collections import Counter

from hypothesis import strategies as st

from vp import core
from vp.gen import edits, sqlcore
from vp.oracle import fingerprint as F

ID = "C20"
LEVEL = "exploration"
RULE = (
    "Hypothesis builds a source tree (core grammar, repetitive trees over-weighted: duplicated projections, a + a + a) and a target that is either the source "
    "after a generated edit script of 0-6 public mutations (replace/pop/append/set/transform/builder calls), or an independently generated tree; with and "
    "without caller-supplied matchings (same-class node pairs), delta_only both ways. Oracle over non-Identifier nodes: every source node appears exactly "
    "once as Remove or as the source of Keep/Update, every target node exactly once as Insert or as the target of Keep/Update, paired nodes have the same "
    "class, no edit references a foreign node, delta_only result == full result minus Keep, delta empty <=> independent fingerprints equal (in particular "
    "for t vs t.copy()), and both inputs keep their deep fingerprint, text and link invariant. Non-trivial = non-empty edit script or >=2 leaves with equal "
    "SQL text in one tree; distinct = distinct (source, target, matchings) triples."
)
ASSUMPTIONS = ["source and target share no node (diff copies its inputs otherwise and edits would reference the copies)"]

MUTATING = tuple(o for o in edits.OPS if o not in ("hash", "eq", "copy_root", "transform_copy", "and_", "not_", "alias", "replace_placeholders"))
REPETITIVE = (
    "SELECT a, a, a FROM t",
    "SELECT a + a + a FROM t WHERE a = a AND a = a",
    "SELECT 1, 1, 1, x FROM t, t",
    "SELECT f(a), f(a), f(b) FROM t GROUP BY a, a",
    "SELECT a FROM t UNION SELECT a FROM t",
    "SELECT CASE WHEN a THEN 1 WHEN a THEN 1 END, 1 FROM t JOIN u ON t.a = u.a JOIN u ON t.a = u.a",
)


# pairs of spellings whose node classes are parent and child (TryCast < Cast, ConcatWs < Concat, SafeDivide ...): the two trees
# differ ONLY in the class of one node, which the matcher must not treat as the same type
CLASS_SWAPS = (("foo(a, b)", "FOO(a, b)"), ("my_udf(a)", "My_Udf(a)"), ("TRY_CAST(a AS INT)", "CAST(a AS INT)"), ("CONCAT_WS(a, b, c)", "CONCAT(a, b, c)"), ("APPROX_QUANTILE(a, 0.5)", "QUANTILE(a, 0.5)"), ("a ILIKE b", "a LIKE b"), ("a <= b", "a < b"), ("COUNT(a)", "SUM(a)"), ("a / b", "a * b"))
SWAP_CONTEXTS = ("SELECT {e} AS x FROM t", "SELECT b FROM t WHERE {e} = 1", "SELECT {e}, {e}, b FROM t GROUP BY b", "SELECT b FROM (SELECT {e} AS b FROM t) AS s ORDER BY b")


@st.composite
def cases(draw, depth):
    k = draw(st.integers(0, 9))
    if k == 9 and draw(st.booleans()):
        a, b = draw(st.sampled_from(CLASS_SWAPS))
        if draw(st.booleans()):
            a, b = b, a
        ctx = draw(st.sampled_from(SWAP_CONTEXTS))
        return {"source": ctx.format(e=a), "mode": "independent", "script": [], "other": ctx.format(e=b), "matchings": [], "opts": draw(st.sampled_from(({}, {}, {"f": 0.3, "t": 0.3})))}
    if k < 3:
        src = draw(st.sampled_from(REPETITIVE))
    else:
        src = draw(sqlcore.statement(depth, only="select" if k < 8 else None))["sql"]
    mode = draw(st.sampled_from(("edited", "edited", "edited", "copy", "independent")))
    script = []
    other = None
    if mode == "edited":
        script = [draw(edits.edit(MUTATING)) for _ in range(draw(st.integers(1, 6)))]
    elif mode == "independent":
        other = draw(st.one_of(st.sampled_from(REPETITIVE), sqlcore.statement(depth, only="select").map(lambda s: s["sql"])))
    return {
        "source": src,
        "mode": mode,
        "script": script,
        "other": other,
        "matchings": draw(st.lists(st.integers(0, 40), max_size=3)) if draw(st.booleans()) else [],
        "opts": draw(st.sampled_from(({}, {}, {"f": 1.0}, {"t": 0.9}, {"f": 0.3, "t": 0.3}))),
    }


def _s(n):
    try:
        return n.sql()[:60]
    except Exception as e:
        return f'<{type(n).__name__}: {type(e).__name__}>'


def _nodes(tree):
    from sqlglot import exp

    return [n for n in tree.walk() if not isinstance(n, exp.Identifier)]


def build(case):
    """Returns (source, target, true correspondences): node pairs that denote the same node before the edit script ran."""
    import sqlglot

    s = sqlglot.parse_one(case["source"])
    pairs = []
    if case["mode"] == "independent":
        t = sqlglot.parse_one(case["other"])
    else:
        t = s.copy()
        pairs = list(zip(s.walk(), t.walk()))
        for e in case["script"]:
            try:
                t, _ = edits.apply(t, e)
            except RecursionError:
                raise
            except Exception:
                pass
    return s, t, pairs


def check_case(case, res=None):
    import sqlglot
    from sqlglot.diff import Insert, Keep, Move, Remove, Update
    from sqlglot.diff import diff as _diff
    from sqlglot.errors import SqlglotError

    logging.getLogger("sqlglot").setLevel(logging.CRITICAL)
    try:
        s, t, pairs = build(case)
    except (SqlglotError, RecursionError):
        if res is not None:
            res.out_of_domain["unparseable"] += 1
        return []
    if F.link_errors(t) or F.link_errors(s):
        # an edit script that leaves a broken tree is C08's subject; diff presupposes a consistent tree
        if res is not None:
            res.out_of_domain["edited-tree-inconsistent"] += 1
        return []
    try:
        complete = not any(n.error_messages() for n in t.walk())
        t.sql()
    except Exception:
        complete = False
    if not complete:
        # the edit script removed a required argument: such trees are not valid inputs to diff (C05 covers generation from them)
        if res is not None:
            res.out_of_domain["edited-tree-incomplete"] += 1
        return []
    fails = []
    sn, tn = _nodes(s), _nodes(t)
    sids, tids = {id(n): n for n in sn}, {id(n): n for n in tn}
    matchings = []
    valid = [(a, b) for a, b in pairs if id(a) in sids and id(b) in tids and type(a) is type(b)]
    for m in case["matchings"]:
        if valid:
            a, b = valid[m % len(valid)]
            if all(a is not x and b is not y for x, y in matchings):
                matchings.append((a, b))

    def state(x):
        try:
            text = x.sql()
        except Exception as e:
            text = f"<{type(e).__name__}>"
        return F.fingerprint(x, deep=True), text, tuple(F.link_errors(x))

    st_s, st_t = state(s), state(t)
    label = f"{case}"
    try:
        full = _diff(s, t, matchings=list(matchings) or None, **case["opts"])
        delta = _diff(s, t, matchings=list(matchings) or None, delta_only=True, **case["opts"])
    except SqlglotError:
        return []
    except RecursionError:
        return []
    except Exception as e:
        return [(f"diff-raises:{type(e).__name__}", f"{label}: {e}")]
    if state(s) != st_s or state(t) != st_t:
        fails.append(("diff-alters-input", label))
    src_count, tgt_count = Counter(), Counter()
    for e in full:
        if isinstance(e, Remove):
            src_count[id(e.expression)] += 1
            if id(e.expression) not in sids:
                fails.append(("foreign-node:Remove", label))
        elif isinstance(e, Insert):
            tgt_count[id(e.expression)] += 1
            if id(e.expression) not in tids:
                fails.append(("foreign-node:Insert", label))
        elif isinstance(e, (Keep, Update, Move)):
            if id(e.source) not in sids or id(e.target) not in tids:
                fails.append((f"foreign-node:{type(e).__name__}", label))
            if type(e.source) is not type(e.target):
                fails.append((f"paired-different-classes:{type(e).__name__}", f"{label}: {type(e.source).__name__} vs {type(e.target).__name__}"))
            if not isinstance(e, Move):
                src_count[id(e.source)] += 1
                tgt_count[id(e.target)] += 1
    move_count = Counter(id(e.source) for e in full if isinstance(e, Move))
    if any(v > 1 for v in move_count.values()):
        n = next(e.source for e in full if isinstance(e, Move) and move_count[id(e.source)] > 1)
        fails.append(("node-moved-twice", f"{label}: {type(n).__name__} {_s(n)!r} x{move_count[id(n)]}"))
    bad_s = [n for n in sn if src_count[id(n)] != 1]
    bad_t = [n for n in tn if tgt_count[id(n)] != 1]
    if bad_s:
        n = bad_s[0]
        fails.append((f"source-node-accounted-{min(src_count[id(n)], 2)}-times", f"{label}: {type(n).__name__} {_s(n)!r} x{src_count[id(n)]}"))
    if bad_t:
        n = bad_t[0]
        fails.append((f"target-node-accounted-{min(tgt_count[id(n)], 2)}-times", f"{label}: {type(n).__name__} {_s(n)!r} x{tgt_count[id(n)]}"))

    def key(e):
        if isinstance(e, (Remove, Insert)):
            return (type(e).__name__, id(e.expression), 0)
        return (type(e).__name__, id(e.source), id(e.target))

    if Counter(key(e) for e in full if not isinstance(e, Keep)) != Counter(key(e) for e in delta):
        fails.append(("delta-only-differs-from-full-minus-keep", label))
    equal = F.fingerprint(s) == F.fingerprint(t)
    if equal and delta:
        fails.append(("delta-nonempty-for-equal-trees", f"{label}: {[type(e).__name__ for e in delta][:5]}"))
    if not equal and not delta:
        fails.append(("delta-empty-for-different-trees", f"{label}: {_s(s)!r} vs {_s(t)!r}"))
    if res is not None:
        texts = Counter(_s(n) for n in sn if not list(n.iter_expressions()) or all(type(c).__name__ == "Identifier" for c in n.iter_expressions()))
        ties = any(v >= 2 for v in texts.values())
        res.case(core.h8([case["source"], case["mode"], case["script"], case["other"], case["matchings"], case["opts"]]), bool(case["script"]) or ties or case["mode"] == "independent",
                 [f"mode:{case['mode']}", "equal-trees" if equal else "different-trees"] + (["ties"] if ties else []) + (["with-matchings"] if matchings else []) + (["opts"] if case["opts"] else []))
        if not fails:
            res.sample({"source": case["source"], "target": _s(t), "edits": [type(e).__name__ for e in delta][:8]}, cls=case["mode"])
    return fails


def plan(tier):
    return [{"n": 260, "depth": 3}] * 16 if tier == "quick" else [{"n": 5000, "depth": 3}] * 32 + [{"n": 1200, "depth": 4}] * 16


def run_shard(spec, seed, res, only_bucket=None):
    return core.drive(cases(spec["depth"]), check_case, seed, spec["n"], res, only_bucket)


def replay(case):
    return check_case(case, None)


MIN_CLASSES = {"quick": {"mode:edited": 1000, "ties": 500, "with-matchings": 300, "equal-trees": 300}}
