"""C12 — dump/load (also through JSON text), pickle and copy reproduce the tree exactly."""
from __future__ import annotations

import json
import logging
import pickle

from hypothesis import strategies as st

from vp import core
from vp.gen import sqlcore
from vp.oracle import fingerprint as F

ID = "C12"
LEVEL = "exploration"
RULE = (
    "Hypothesis builds core-grammar statements, injects block comments at token gaps, parses each in the base dialect and in 4 drawn dialects, and "
    "takes three variants of every tree: as parsed, after annotate_types (dialect-specific typing), after qualify (+annotate) over a schema. For each of "
    "load(dump(t)), load(json.loads(json.dumps(dump(t)))), pickle.loads(pickle.dumps(t)), t.copy(): result == t, independent deep fingerprint (class, args, "
    "public .type, .comments, .meta) identical, same SQL in 3 dialects, link invariant holds, json.dumps never raises. Non-trivial = tree carries a type "
    "annotation, a comment, non-position meta, a list arg or a non-string scalar arg; distinct = distinct (statement, dialect, variant)."
)
ASSUMPTIONS = [
    "observes nodes through public attributes only (.args, .type, .comments, .meta)",
    "statements that do not parse in a dialect are outside its domain",
]

SCHEMA = {t: {c: ty for c, ty in zip(sqlcore.COLS, ("INT", "INT", "DOUBLE", "VARCHAR", "BIGINT", "VARCHAR", "TIMESTAMP"))} for t in sqlcore.TABLES}


_SAFE_NEXT = ("FROM ", "WHERE ", "AND ", "OR ", "ON ", "GROUP BY", "ORDER BY", "LIMIT ", "HAVING ", "UNION", "INTERSECT", "EXCEPT", "LEFT ", "RIGHT ", "INNER ", "THEN ", "ELSE ", "END")


def _inject_comments(sql: str, positions, texts):
    """Block comments at gaps where a comment cannot split a multi-word keyword (after a comma or SELECT, before a clause keyword)."""
    spaces = [
        i
        for i, ch in enumerate(sql)
        if ch == " " and (sql[i - 1 : i] == "," or sql[max(0, i - 6) : i] == "SELECT" or sql.startswith(_SAFE_NEXT, i + 1))
    ]
    if not spaces:
        return sql
    chosen = {}
    for p, txt in zip(positions, texts):
        chosen.setdefault(spaces[p % len(spaces)], txt)
    out = sql
    for i in sorted(chosen, reverse=True):
        out = out[:i] + f" /* {chosen[i]} */" + out[i:]
    return out


@st.composite
def cases(draw, depth):
    stmt = draw(sqlcore.statement(depth))
    n = draw(st.integers(0, 2))
    pos = [draw(st.integers(0, 200)) for _ in range(n)]
    txt = [draw(st.sampled_from(("c1", "note: x", "a, b", "TODO"))) for _ in range(n)]
    names = sqlcore.dialect_names()
    ds = draw(st.lists(st.sampled_from(names[1:]), min_size=4, max_size=4, unique=True))
    return {"sql": _inject_comments(stmt["sql"], pos, txt), "features": stmt["features"], "kind": stmt["kind"], "dialects": [""] + ds, "other": draw(st.sampled_from(names))}


def _variants(tree, d):
    from sqlglot.errors import SqlglotError
    from sqlglot.optimizer.annotate_types import annotate_types
    from sqlglot.optimizer.qualify import qualify

    yield "parsed", tree
    # the variants are only INPUTS of the serialisation routes: whatever the annotator / qualifier do with a dialect-specific
    # statement (including internal errors, which are other properties' subject) must not stop this check
    try:
        annotated = annotate_types(tree.copy(), dialect=d or None)
    except (SqlglotError, RecursionError, Exception):
        annotated = None
    if annotated is not None:
        yield "annotated", annotated
    try:
        q = annotate_types(qualify(tree.copy(), schema=SCHEMA, dialect=d or None, validate_qualify_columns=False), schema=SCHEMA, dialect=d or None)
    except (SqlglotError, RecursionError, Exception):
        q = None
    if q is not None:
        yield "qualified", q


def _nontrivial(tree) -> bool:
    for n in tree.walk():
        if n.comments or (n.type is not None and n.type is not n):
            return True
        for v in n.args.values():
            if type(v) is list and v:
                return True
            if isinstance(v, (bool, int)) and v is not None:
                return True
    return False


def check_tree(t, d, other, label):
    import sqlglot
    from sqlglot import exp
    from sqlglot.errors import SqlglotError

    fails = []
    fp = F.fingerprint(t, deep=True)

    def texts(x):
        out = []
        for dd in dict.fromkeys([d, "", other]):
            try:
                out.append(x.sql(dialect=dd or None, unsupported_level=sqlglot.ErrorLevel.IGNORE))
            except Exception as e:  # whatever happens for the original must happen for the reproduction
                out.append(f"<{type(e).__name__}>")
        return out

    want = texts(t)
    routes = []
    try:
        dumped = t.dump()
    except Exception as e:
        return [(f"dump-raises:{type(e).__name__}", f"{label}: {e}")]
    try:
        js = json.dumps(dumped)
    except (TypeError, ValueError) as e:
        fails.append((f"dump-not-json:{label.split(':')[0]}", f"{label}: json.dumps(dump(tree)) raised {type(e).__name__}: {e}"))
        js = None
    routes.append(("load(dump)", lambda: exp.Expr.load(dumped)))
    if js is not None:
        routes.append(("json", lambda: exp.Expr.load(json.loads(js))))
    routes.append(("pickle", lambda: pickle.loads(pickle.dumps(t))))
    routes.append(("copy", lambda: t.copy()))
    for name, fn in routes:
        try:
            r = fn()
        except Exception as e:
            if name == "pickle" and js is None:
                continue  # same root cause as dump-not-json? no: pickle uses dump but not json; report separately
            fails.append((f"{name}-raises:{type(e).__name__}", f"{label}: {e}"))
            continue
        try:
            equal = r == t
        except Exception as e:
            # e.g. a list nested in a list argument makes the tree unhashable: then it cannot be compared with its reproduction at all
            fails.append((f"eq-raises:{type(e).__name__}", f"{label}: comparing the reproduction with the original raised {type(e).__name__}: {e}"))
            break
        if not equal:
            fails.append((f"{name}:not-equal", f"{label}: result != original"))
            continue
        fp2 = F.fingerprint(r, deep=True)
        if fp2 != fp:
            fails.append((f"{name}:deep-fingerprint-differs", f"{label}: {_first_diff(fp, fp2)}"))
            continue
        if texts(r) != want:
            fails.append((f"{name}:sql-differs", f"{label}: {want} vs {texts(r)}"))
        le = F.link_errors(r)
        if le:
            fails.append((f"{name}:links", f"{label}: {le[:2]}"))
        if name != "copy" and (F.node_ids(r) & F.node_ids(t)):
            fails.append((f"{name}:shares-nodes", label))
    return fails


def _first_diff(a, b, path="root"):
    if type(a) is not type(b):
        return f"{path}: {a!r} vs {b!r}"[:400]
    if isinstance(a, tuple):
        if len(a) != len(b):
            return f"{path}: len {len(a)} vs {len(b)}: {a!r} vs {b!r}"[:400]
        for i, (x, y) in enumerate(zip(a, b)):
            if x != y:
                return _first_diff(x, y, f"{path}/{i}")
        return "?"
    return f"{path}: {a!r} vs {b!r}"[:400]


def check_case(case, res=None):
    import sqlglot
    from sqlglot.errors import SqlglotError

    logging.getLogger("sqlglot").setLevel(logging.CRITICAL)
    fails = []
    for d in case["dialects"]:
        try:
            tree = sqlglot.parse_one(case["sql"], dialect=d or None)
        except SqlglotError:
            if res is not None:
                res.out_of_domain["does-not-parse-in-dialect"] += 1
            continue
        for vname, t in _variants(tree, d):
            label = f"{vname}:{d or 'base'}:{case['sql']!r}"
            f = check_tree(t, d, case.get("other", ""), label)
            if res is not None:
                res.case(core.h8([case["sql"], d, vname]), _nontrivial(t), [f"variant:{vname}", f"dialect:{d or 'base'}", f"kind:{case['kind']}"] + (["has-comment"] if "/*" in case["sql"] else []))
            for b, det in f:
                fails.append((f"{b}|{vname}" + (f"|{d}" if b.startswith("dump-not-json") else ""), det))
    if res is not None and not fails:
        res.sample({"sql": case["sql"], "dialects": case["dialects"]}, cls=case["kind"])
    return fails


CORPUS_PARTS = 8


def corpus_sweep(part, res, only_bucket=None):
    """EXHAUSTIVE stream: every statement of the repository's fixture corpus (see C05), parsed in its own dialect, through every
    serialisation route. Dialect-specific trees carry the odd argument shapes (raw ints and None inside lists, nested lists, empty
    lists, dialect objects) that the core grammar never produces."""
    from vp.props import c05

    n = 0
    for i, (d, text) in enumerate(c05.corpus()):
        if i % CORPUS_PARTS != part:
            continue
        case = {"sql": text, "dialects": [d], "kind": "fixture", "other": ""}
        n += 1
        for b, det in check_case(case, res):
            b = "fixture|" + b
            if only_bucket is None or b == only_bucket:
                res.fail(b, dict(case, fixture=True), det)
    res.extra["fixture_statements"] = res.extra.get("fixture_statements", 0) + n


def plan(tier):
    sweep = [{"kind": "corpus", "part": i} for i in range(CORPUS_PARTS)]
    return sweep + ([{"n": 60, "depth": 3}] * 16 if tier == "quick" else [{"n": 600, "depth": 3}] * 32 + [{"n": 250, "depth": 5}] * 16)


def run_shard(spec, seed, res, only_bucket=None):
    if spec.get("kind") == "corpus":
        corpus_sweep(spec["part"], res, only_bucket)
        return None
    return core.drive(cases(spec["depth"]), check_case, seed, spec["n"], res, only_bucket)


def replay(case):
    if case.get("fixture"):
        return [("fixture|" + b, d) for b, d in check_case(case, None)]
    return check_case(case, None)


MIN_CLASSES = {"quick": {"variant:annotated": 500, "variant:qualified": 100, "has-comment": 300}}
