"""C11 — the Python executor returns what DuckDB/SQLite return for the same query and data."""
from __future__ import annotations

import logging

from hypothesis import strategies as st

from vp import core
from vp.gen import queries
from vp.oracle import contradiction, engines

ID = "C11"
LEVEL = "exploration"
RULE = (
    "Hypothesis builds typed queries of the executor's fragment (scan/filter/project, inner/left/right/full/cross joins, GROUP BY with SUM/COUNT/MIN/MAX/AVG, HAVING, "
    "DISTINCT, total ORDER BY with LIMIT/OFFSET, UNION/INTERSECT/EXCEPT [ALL], IN/EXISTS/scalar subqueries, CASE/COALESCE, derived tables, CTEs; no division) and small "
    "tables with NULLs, duplicates and empty tables. Oracle: execute(sql, schema, tables) vs DuckDB on identical data, and vs SQLite when SQLite accepts the text; when the "
    "two engines disagree with each other the case is outside the common semantics and discarded (counted). Column names and rows (multiset; sequence under a total "
    "ORDER BY) must agree; ExecuteError is allowed. Non-trivial = non-empty result or an empty-input/all-NULL aggregate/outer-join feature; distinct = distinct (query, tables)."
)
ASSUMPTIONS = [
    "DuckDB and SQLite are the reference semantics; a query DuckDB rejects is a generator error",
    "AVG is compared with 1e-9 tolerance",
]


def check_case(case, res=None):
    from sqlglot.errors import ExecuteError, SqlglotError
    from sqlglot.executor import execute

    logging.getLogger("sqlglot").setLevel(logging.CRITICAL)
    sql, tables, ordered = case["sql"], case["tables"], case["ordered"]
    feats = case["features"]
    if not case.get("strict"):
        for kf, pred in EXCLUDE.items():
            if pred(sql, feats):
                if res is not None:
                    res.excluded[kf] += 1
                return []
    try:
        names0, rows0 = engines.run_duck(sql, tables)
    except engines.EngineError:
        if res is not None:
            res.out_of_domain["duckdb-rejects-original"] += 1
        return []
    try:
        names_s, rows_s = engines.run_sqlite(sql, tables)
        if not engines.same_rows(rows0, rows_s, ordered):
            if res is not None:
                res.out_of_domain["engines-disagree"] += 1
            return []
        second = True
    except engines.EngineError:
        second = False
    py_tables = {name: [dict(zip([c for c, _ in queries.SCHEMA[name]], r)) for r in rows] for name, rows in tables.items()}
    fails = []
    try:
        out = execute(sql, schema=queries.schema_dict(), tables=py_tables)
        names1 = list(out.columns)
        rows1 = [tuple(engines.norm(v) for v in r) for r in out.rows]
    except ExecuteError:
        if res is not None:
            res.classes["execute-error"] += 1
            res.evaluations += 1
        return []
    except SqlglotError as e:
        if res is not None:
            res.classes["other-sqlglot-error:" + type(e).__name__] += 1
            res.evaluations += 1
        return []
    except RecursionError:
        return []
    except Exception as e:
        return [(f"executor-raises|{type(e).__name__}", f"{sql!r} tables {tables}: {type(e).__name__}: {e}")]
    if [n.lower() for n in names1] != [n.lower() for n in names0]:
        fails.append(("column-names", f"{sql!r}: engine {names0} executor {names1}"))
    elif not engines.same_rows(rows0, rows1, ordered):
        fails.append((f"rows|{_family(feats)}", f"{sql!r}; tables {tables}; engine {engines.show(rows0)} executor {engines.show(rows1)}"))
    if res is not None:
        sensitive = any(f.startswith(("join:left", "join:right", "join:full", "agg:no-group", "setop", "sub:")) for f in feats) or any(not r for r in tables.values())
        res.case(core.h8([sql, tables]), bool(rows0 or sensitive), [f"feat:{f}" for f in feats] + (["nonempty-result"] if rows0 else []) + (["sqlite-agrees"] if second else []))
        if not fails and rows0:
            res.sample({"sql": sql, "tables": tables, "rows": rows0[:3]}, cls=(feats[0] if feats else ""))
    return fails


def _family(feats):
    for key in ("join:full", "join:right", "join:left", "setop", "sub:", "group-by", "agg:no-group", "distinct", "limit", "order-by"):
        for f in feats:
            if f.startswith(key):
                return key
    return "plain"


EXCLUDE: dict = {
    # execute() optimizes first; same root cause as C03-right-join-on-true-to-cross
    "C11-right-join-on-true-to-cross": lambda sql, feats: "RIGHT JOIN" in sql and " ON 1 = 1" in sql,
    "C11-cross-join-limit-1-eliminated": lambda sql, feats: "CROSS JOIN" in sql and " LIMIT 1)" in sql,
    # planner sorts first and then applies DISTINCT as an aggregation that re-sorts by the projected values
    # execute() optimizes first; simplify folds a contradictory pair on one column to FALSE although it is NULL on a NULL operand
    "C11-contradiction-to-false": lambda sql, feats: contradiction.in_region(sql),
    "C11-distinct-discards-order": lambda sql, feats: "distinct" in feats and ("order-by" in feats or "nested-limit" in feats),
}


def plan(tier):
    return [{"n": 500, "depth": 2}] * 16 if tier == "quick" else [{"n": 4000, "depth": 2}] * 32 + [{"n": 1000, "depth": 3}] * 16


def run_shard(spec, seed, res, only_bucket=None):
    return core.drive(queries.case("executor", spec["depth"]), check_case, seed, spec["n"], res, only_bucket)


def replay(case):
    return check_case(case, None)


def minimize(case, bucket):
    import copy

    def fails_with(tables):
        return any(b == bucket for b, _ in check_case(dict(case, tables=tables), None))

    tables = copy.deepcopy(case["tables"])
    for name in list(tables):
        i = 0
        while i < len(tables[name]):
            cand = {**tables, name: tables[name][:i] + tables[name][i + 1 :]}
            if fails_with(cand):
                tables = cand
            else:
                i += 1
    return dict(case, tables=tables)
