"""C05 — tokenize/parse/generate terminate within a polynomial step bound and raise only sqlglot's own errors."""
from __future__ import annotations

import logging
import os
import sys
import traceback

from hypothesis import strategies as st

from vp import core
from vp.gen import sqlcore

ID = "C05"
LEVEL = "exploration"
RULE = (
    "Inputs: (V) valid core-grammar statements; (M) 1-3 token-level mutations of V (delete / insert / swap / duplicate / replace tokens, tokenised by the dialect itself) and "
    "truncated prefixes; (K) keyword/punctuation soups drawn from the dialect's own keyword table; (U) random Unicode incl. the dialect's delimiters; scaled families "
    "(a mutated fragment repeated n, 2n, 4n times; nesting up to depth 40) x drawn dialects x all four error levels. Oracle: tokenize / parse / transpile raise only "
    "SqlglotError subclasses (RecursionError is an environment bound and excluded); a deterministic work counter (Python function calls inside sqlglot, via sys.setprofile) "
    "stays below min(A*n^2, L*n)+B for input length n (A, B = 10x the worst ratio of a calibration campaign) so that a non-terminating or super-quadratic loop is decided without a "
    "clock; every tree returned (under IGNORE/WARN too) is generated into the same and another dialect under the same rule; trees are classified complete (no node reports "
    "error_messages()) or incomplete. Strict: V at all levels and generation from complete trees. M/K/U parse leaks and generation from incomplete trees are keyed by call site "
    "(phase, exception type, file, function); a call site not in the catalogue is a violation when >=3 distinct inputs of the run reach it (single hits are listed under "
    "uncatalogued_rare_buckets). Non-trivial = the input raised a sqlglot error or returned an incomplete tree (M/K/U) / parsed and generated (V); distinct = distinct (text, dialect, level)."
)
ASSUMPTIONS = [
    "RecursionError/MemoryError are environment limits (inputs are bounded in depth and size so they do not arise from the generators by themselves)",
    "work is counted in Python-level function calls made while inside sqlglot; a loop that calls nothing is not counted (none exists in the code base: every parser loop calls _match/_advance)",
]
HYP_SHRINK = True
PUNCT = ["(", ")", ",", ".", ";", "*", "+", "-", "/", "=", "<", ">", "<>", "::", "[", "]", "{", "}", ":", "'", '"', "`", "$", "@", "?", "||", "->", "=>", "--", "/*", "*/", "1", "1.5", "'s'", "x", "t.a", "NULL", "1e", "2.e", "1e+", "0x", ".5", "1_0", "-", "NOT", "[1e]", "[:-"]
LEVELS = ("IGNORE", "WARN", "RAISE", "IMMEDIATE")
_KW: dict = {}

# work bound: calls <= min(A * n^2, L * n) + B   (n = len(text)); calibrated, see DESIGN.md §C05. The quadratic term governs short
# inputs, the linear cap long ones (scaled families of 2000+ characters): the worst ratio ever observed on the unchanged tree is
# below 100 calls per character, so L = 5000 keeps a 50x margin while a genuine hang on a long input is decided in seconds, not minutes
A, B, L = 40, 400_000, 5000


def bound(n: int) -> int:
    n = max(n, 1)
    return min(A * n * n, L * n) + B


class WorkExceeded(BaseException):
    pass


class _Counter:
    def __init__(self, limit):
        self.n = 0
        self.limit = limit

    def __call__(self, frame, event, arg):
        if event == "call":
            self.n += 1
            if self.n > self.limit:
                sys.setprofile(None)
                raise WorkExceeded()


def _keywords(d):
    if d not in _KW:
        from sqlglot.dialects.dialect import Dialect

        tk = Dialect.get_or_raise(d or None).tokenizer_class
        _KW[d] = sorted(k for k in tk.KEYWORDS if k.replace(" ", "").replace("_", "").isalnum())[:600]
    return _KW[d]


_CORPUS = None


def corpus():
    """Seed corpus from the repository's own tests: identity fixtures (base dialect) and the strings passed to validate_identity /
    validate_all in tests/dialects/test_<dialect>.py (read as that dialect). Far wider than the core grammar."""
    global _CORPUS
    if _CORPUS is None:
        import glob
        import re

        out = []
        root = os.path.join(core.REPO, "tests")
        try:
            for line in open(os.path.join(root, "fixtures", "identity.sql")):
                line = line.strip()
                if line and not line.startswith("--"):
                    out.append(("", line))
        except OSError:
            pass
        names = set(sqlcore.dialect_names())
        for path in sorted(glob.glob(os.path.join(root, "dialects", "test_*.py"))):
            d = os.path.basename(path)[5:-3]
            if d == "dialect":
                d = ""  # tests/dialects/test_dialect.py: cross-dialect cases written in the base dialect
            elif d not in names:
                continue
            try:
                src = open(path).read()
            except OSError:
                continue
            # first argument of every validate_identity / validate_all call, when it is a constant string (implicit concatenation
            # and triple-quoted literals included): ast, not a regex, so multi-part literals come out whole
            import ast

            try:
                tree = ast.parse(src)
            except SyntaxError:
                continue
            for node in ast.walk(tree):
                if isinstance(node, ast.Call) and isinstance(node.func, ast.Attribute) and node.func.attr in ("validate_identity", "validate_all") and node.args:
                    a0 = node.args[0]
                    if isinstance(a0, ast.Constant) and isinstance(a0.value, str):
                        text = a0.value.strip()
                        if text and len(text) < 1500:
                            out.append((d, text))
        _CORPUS = out
    return _CORPUS


@st.composite
def cases(draw, depth):
    kind = draw(st.sampled_from(("V", "M", "M", "M", "K", "U", "S", "F", "F")))
    if kind == "S" and draw(st.integers(0, 5)) == 0:
        # scaled family of its own: LIMIT/OFFSET whose operand is a subquery with a LIMIT ..., nested k deep
        k = draw(st.integers(2, 14))
        inner = str(draw(st.integers(1, 9)))
        for _ in range(k):
            inner = f"(SELECT a {draw(st.sampled_from(('LIMIT', 'LIMIT', 'OFFSET')))} {inner})"
        return {"kind": "S", "dialect": draw(st.sampled_from(sqlcore.dialect_names())), "other": "", "level": draw(st.sampled_from(LEVELS)), "count_work": True,
                "sql": f"SELECT a FROM t LIMIT {inner}", "muts": [], "repeat": 1, "nest": 0, "limit_nest": k}
    if kind == "F" and not corpus():
        kind = "M"
    d = draw(st.sampled_from(sqlcore.dialect_names()))
    other = draw(st.sampled_from(sqlcore.dialect_names()))
    level = draw(st.sampled_from(LEVELS))
    case = {"kind": kind, "dialect": d, "other": other, "level": level, "count_work": True}
    if kind == "F":
        cd, text = corpus()[draw(st.integers(0, len(corpus()) - 1))]
        case["sql"] = text
        case["dialect"] = cd if draw(st.integers(0, 3)) else d
        case["other"] = draw(st.sampled_from(["bigquery", "duckdb", "tsql", "snowflake", "spark", "postgres", "mysql", "clickhouse", "oracle"] + [other]))
        n = draw(st.integers(1, 2))  # the unmutated statements are swept exhaustively by the "sweep" shards
        case["muts"] = [{"op": draw(st.sampled_from(("delete", "insert", "swap", "dup", "replace", "truncate"))), "i": draw(st.integers(0, 200)), "j": draw(st.integers(0, 200)), "tok": draw(st.sampled_from(PUNCT + ["SELECT", "FROM", "ON", "AS", "NOT", "NULL", "FOO", "x"]))} for _ in range(n)]
    elif kind in ("V", "M", "S"):
        case["sql"] = draw(sqlcore.statement(depth))["sql"]
        if kind == "M":
            n = draw(st.integers(1, 3))
            case["muts"] = [{"op": draw(st.sampled_from(("delete", "insert", "swap", "dup", "replace", "truncate"))), "i": draw(st.integers(0, 200)), "j": draw(st.integers(0, 200)), "tok": draw(st.sampled_from(PUNCT + ["SELECT", "FROM", "WHERE", "AND", "AS", "ON", "BY", "CASE", "END", "IN", "NOT", "JOIN", "UNION", "OVER", "CAST"]))} for _ in range(n)]
        if kind == "S":
            case["repeat"] = draw(st.sampled_from((4, 8, 16)))
            case["nest"] = draw(st.integers(0, 40))
            case["muts"] = [{"op": draw(st.sampled_from(("delete", "insert", "truncate"))), "i": draw(st.integers(0, 50)), "j": 0, "tok": draw(st.sampled_from(PUNCT))}]
    elif kind == "K":
        kws = _keywords(d)
        n = draw(st.integers(1, 40))
        case["sql"] = " ".join(draw(st.sampled_from(kws)) if draw(st.integers(0, 2)) else draw(st.sampled_from(PUNCT)) for _ in range(n))
    else:
        case["sql"] = draw(st.text(alphabet=st.one_of(st.characters(), st.sampled_from(list("'\"`\\$[]{}()-/*#;:,.@ \n"))), max_size=60))
    return case


def _apply_muts(sql, d, muts):
    from sqlglot.dialects.dialect import Dialect
    from sqlglot.errors import SqlglotError

    # the mutation tokenises with the code under test: same deterministic work bound as everything else
    counter = _Counter(bound(len(sql)))
    try:
        sys.setprofile(counter)
        try:
            toks = Dialect.get_or_raise(d or None).tokenize(sql)
        finally:
            sys.setprofile(None)
    except SqlglotError:
        return sql
    lex = [sql[t.start : t.end + 1] for t in toks if t.end >= t.start]
    for m in muts:
        if not lex:
            break
        i, j = m["i"] % len(lex), m["j"] % len(lex)
        if m["op"] == "delete":
            del lex[i]
        elif m["op"] == "insert":
            lex.insert(i, m["tok"])
        elif m["op"] == "swap":
            lex[i], lex[j] = lex[j], lex[i]
        elif m["op"] == "dup":
            lex.insert(i, lex[i])
        elif m["op"] == "replace":
            lex[i] = m["tok"]
        else:
            lex = lex[: max(1, i)]
    return " ".join(lex)


def _text(case):
    sql = case["sql"]
    if case["kind"] in ("M", "F"):
        return _apply_muts(sql, case["dialect"], case["muts"]) if case.get("muts") else sql
    if case["kind"] == "S":
        frag = _apply_muts(sql, case["dialect"], case["muts"])
        body = " UNION ALL ".join([frag] * case["repeat"])
        if case["nest"]:
            body = "SELECT " + "(" * case["nest"] + "1" + ")" * case["nest"] + " FROM (" + body + ") AS z"
        return body
    return sql


def _site(exc):
    tb = traceback.extract_tb(exc.__traceback__)
    repo = os.path.realpath(core.REPO)
    inner = None
    for fr in tb:
        if os.path.realpath(fr.filename).startswith(repo + os.sep):
            inner = fr
    if inner is None:
        return "outside-sqlglot"
    return f"{os.path.basename(inner.filename)}:{inner.name}"


def _complete(tree):
    try:
        return not any(n.error_messages() for n in tree.walk())
    except Exception:
        return False


def run_one(text, d, other, level, count_work, all_targets=False, exclude=True):
    """Returns (fails, info). fails: list of (bucket, detail)."""
    import sqlglot
    from sqlglot import ErrorLevel
    from sqlglot.errors import SqlglotError

    fails = []
    info = {"raised": False, "incomplete": 0, "complete": 0, "calls": 0, "valid": False}
    dd = d or None
    # an input is VALID in d when a RAISE-level parse accepts it; only then is everything downstream strict
    pre = _Counter(bound(len(text)))
    try:
        sys.setprofile(pre)
        try:
            sqlglot.parse(text, read=dd, error_level=ErrorLevel.RAISE)
        finally:
            sys.setprofile(None)
        info["valid"] = True
    except WorkExceeded:
        return [("work-bound-exceeded|parse", f"{d or 'base'} RAISE: more than {pre.limit} calls for {len(text)} characters: {text[:300]!r}")], info
    except BaseException:
        info["valid"] = False
    n = max(len(text), 1)
    limit = bound(n)
    counter = _Counter(limit) if count_work else None
    trees = []
    try:
        if counter:
            sys.setprofile(counter)
        try:
            trees = sqlglot.parse(text, read=dd, error_level=ErrorLevel[level])
        finally:
            sys.setprofile(None)
    except SqlglotError:
        info["raised"] = True
    except RecursionError:
        info["recursion"] = True
        return fails, info
    except WorkExceeded:
        fails.append(("work-bound-exceeded|parse", f"{d or 'base'} {level}: more than {limit} calls for {n} characters: {text[:300]!r}"))
        return fails, info
    except Exception as e:
        fails.append((f"parse|{type(e).__name__}|{_site(e)}", f"{d or 'base'} {level}: {text[:400]!r}: {type(e).__name__}: {str(e)[:200]}"))
        return fails, info
    if counter:
        info["calls"] = counter.n
    for tree in trees or []:
        if tree is None:
            continue
        complete = _complete(tree)
        info["complete" if complete else "incomplete"] += 1
        # valid, unmutated statements are generated into EVERY dialect (dialect-specific generator helpers are where a
        # missing None-check hides); everything else into its own and one drawn dialect
        for target in (sqlcore.dialect_names() if all_targets and info["valid"] else dict.fromkeys((d, other))):
            if exclude and target in MYSQL_FAMILY and text.upper().count("FULL ") >= 4:
                # known finding C05-nested-full-join-exponential: excluded by construction, counted
                info["excluded_full_join"] = info.get("excluded_full_join", 0) + 1
                continue
            counter2 = _Counter(bound(n)) if count_work else None
            try:
                if counter2:
                    sys.setprofile(counter2)
                try:
                    tree.sql(dialect=target or None, unsupported_level=ErrorLevel.IGNORE if level in ("IGNORE", "WARN") else ErrorLevel[level])
                finally:
                    sys.setprofile(None)
            except SqlglotError:
                pass
            except RecursionError:
                pass
            except WorkExceeded:
                fails.append(("work-bound-exceeded|generate", f"{d or 'base'}->{target or 'base'}: {text[:300]!r}"))
            except Exception as e:
                # LENIENT: a RAISE-level parse accepted MUTATED text but the tree it returned misses required children
                # (function builders are not validated, e.g. FORMAT_TIME(, x) in BigQuery) -- same open-ended family of
                # generator call sites as trees of rejected input, catalogued as its own finding
                if info["valid"]:
                    phase = "generate-valid" if complete or all_targets else "generate-lenient-incomplete"
                else:
                    phase = "generate-invalid-complete" if complete else "generate-invalid-incomplete"
                fails.append((f"{phase}|{type(e).__name__}|{_site(e)}", f"{d or 'base'}->{target or 'base'} {level}: {text[:400]!r}: {type(e).__name__}: {str(e)[:200]}"))
    return fails, info


MYSQL_FAMILY = ("mysql", "doris", "starrocks", "singlestore")
_WORK_FAILS = [0]
WORK_FAIL_STOP = 6


def check_case(case, res=None):
    logging.getLogger("sqlglot").setLevel(logging.CRITICAL)
    if case.get("limit_nest", 0) >= 8 and not case.get("no_exclusion"):
        # known finding C05-nested-limit-subquery-exponential: excluded by construction, counted
        if res is not None:
            res.excluded["C05-nested-limit-subquery-exponential"] += 1
        return []
    if res is not None and _WORK_FAILS[0] >= WORK_FAIL_STOP:
        # every work-bound violation costs the whole budget (a hang inside an import is re-entered by every later case):
        # once a shard has recorded a dozen of them the verdict is settled and the rest of the shard is skipped, counted
        res.extra["cases_skipped_after_work_bound_violations"] = res.extra.get("cases_skipped_after_work_bound_violations", 0) + 1
        return []
    try:
        text = _text(case)
    except WorkExceeded:
        if res is not None:
            _WORK_FAILS[0] += 1
            res.case(core.h8([case["sql"], case["dialect"], "tokenize"]), True, [f"class:{case['kind']}"])
        return [("strict|work-bound-exceeded|tokenize", f"{case['dialect'] or 'base'}: tokenizing {case['sql'][:300]!r} for mutation exceeded the work bound")]
    unmutated = case["kind"] == "V" or (case["kind"] == "F" and not case.get("muts"))
    fails, info = run_one(text, case["dialect"], case["other"], case["level"], case.get("count_work", False), all_targets=unmutated and not case.get("own_only"))
    out = []
    if res is not None and info.get("excluded_full_join"):
        res.excluded["C05-nested-full-join-exponential"] += info["excluded_full_join"]
    if res is not None and any(b.startswith("work-bound") for b, _ in fails):
        _WORK_FAILS[0] += 1
    for b, det in fails:
        # STRICT (one hit is a violation): the work bound, and anything on UNMUTATED statements (grammar or fixture corpus).
        # Mutated text that a RAISE-level parse happens to accept is still garbage text: 'accepted|' buckets follow the
        # frequency floor like 'garbage|' ones (campaigns over the fixture corpus showed a non-saturating tail of such sites)
        if b.startswith("work-bound") or (info["valid"] and unmutated):
            prefix = "strict|"
        elif info["valid"] and not b.startswith("generate-lenient-"):
            prefix = "accepted|"
        else:
            prefix = "garbage|"
        out.append((prefix + b, det))
    if res is not None:
        if info.get("recursion"):
            res.out_of_domain["recursion-limit"] += 1
        nontrivial = info["raised"] or info["incomplete"] > 0 if case["kind"] in ("M", "K", "U") or (case["kind"] == "F" and case.get("muts")) else (info["complete"] > 0)
        res.case(core.h8([text, case["dialect"], case["level"]]), bool(nontrivial), [f"class:{case['kind']}", f"level:{case['level']}"] + (["valid-input"] if info["valid"] else ["invalid-input"]) + (["raised"] if info["raised"] else []) + (["incomplete-tree"] if info["incomplete"] else []) + (["work-counted"] if case.get("count_work") else []))
        if info["calls"]:
            ratio = info["calls"] / max(len(text), 1)
            res.extra["max_calls_per_char_x100"] = max(res.extra.get("max_calls_per_char_x100", 0), int(ratio * 100))
        if not out and nontrivial:
            res.sample({"text": text[:160], "dialect": case["dialect"], "level": case["level"], "kind": case["kind"]}, cls=case["kind"] + case["level"])
    return out


def no_shrink(bucket: str) -> bool:
    return "work-bound" in bucket


def frequency_floor(bucket: str) -> int:
    """Garbage-text call sites need >=3 distinct inputs in one run; everything strict needs one."""
    return 3 if bucket.startswith(("garbage|", "accepted|")) else 1  # strict|, prefix| (exhaustive streams) and regress: need one


SWEEP_PARTS = 8


def plan(tier):
    sweep = [{"kind": "sweep", "part": i} for i in range(SWEEP_PARTS)] + [{"kind": "prefix", "part": i, "parts": 8} for i in range(8)]
    if tier == "quick":
        return sweep + [{"n": 1200, "depth": 3}] * 16
    return sweep + [{"n": 5000, "depth": 3}] * 40 + [{"n": 1500, "depth": 5}] * 8


def sweep(part, res, only_bucket=None):
    """EXHAUSTIVE stream: every statement of the repository's fixture corpus, read as its own dialect at RAISE and IGNORE,
    generated for every dialect at RAISE (finite: |corpus| x |dialects|), everything work-counted."""
    n = 0
    for i, (d, text) in enumerate(corpus()):
        if i % SWEEP_PARTS != part:
            continue
        for level in ("RAISE", "IGNORE"):
            # RAISE: generated for all dialects; IGNORE (same tree whenever RAISE accepts): own dialect only. Everything is work-counted:
            # generators call back into the tokenizer/parser (DataType.build, format strings), so a hang can sit there too
            case = {"kind": "F", "dialect": d, "other": "", "level": level, "count_work": True, "sql": text, "muts": [], "own_only": level == "IGNORE"}
            for b, det in check_case(case, res):
                if only_bucket is None or b == only_bucket:
                    res.fail(b, case, det)
            n += 1
    res.extra["corpus_statements_swept"] = res.extra.get("corpus_statements_swept", 0) + n // 2


IMPORT_LIMIT = 20_000_000


def _preload(res, only_bucket):
    """Dialect modules run the tokenizer and parser at import time (class bodies call maybe_parse): load them under the work
    bound first, so that a hang there is a counted violation instead of a hang inside a generator or a dialect lookup."""
    from sqlglot.dialects.dialect import Dialect

    for d in sqlcore.dialect_names():
        counter = _Counter(IMPORT_LIMIT)
        try:
            sys.setprofile(counter)
            try:
                Dialect.get_or_raise(d or None)
            finally:
                sys.setprofile(None)
        except WorkExceeded:
            b = "strict|work-bound-exceeded|import"
            if only_bucket is None or only_bucket == b:
                res.fail(b, {"text": "SELECT 1", "dialect": d, "other": "", "level": "RAISE", "strict": True}, f"loading dialect {d or 'base'} needs more than {IMPORT_LIMIT} Python calls")
            res.case(core.h8(["import", d]), True, ["class:import"])
            return False
        except Exception:
            pass
    return True


def prefix_sweep(part, parts, res, only_bucket=None):
    """EXHAUSTIVE stream: every proper token prefix of every fixture statement, parsed in the statement's dialect (error level cycles
    with the statement index). End-of-input inside a construct is where token-collecting loops and 'expect )' paths go wrong.
    Deterministic (no random draw): its buckets ('prefix|parse|...') need one hit and the sites the unchanged tree shows are catalogued."""
    import sqlglot
    from sqlglot import ErrorLevel
    from sqlglot.dialects.dialect import Dialect
    from sqlglot.errors import SqlglotError

    n = 0
    for i, (d, text) in enumerate(corpus()):
        if i % parts != part:
            continue
        level = LEVELS[i % len(LEVELS)]
        try:
            toks = Dialect.get_or_raise(d or None).tokenize(text)
        except Exception:
            continue
        seen = set()
        for tok in toks[:-1]:
            prefix = text[: tok.end + 1]
            if prefix in seen:
                continue
            seen.add(prefix)
            n += 1
            counter = _Counter(bound(len(prefix)))
            b = None
            try:
                sys.setprofile(counter)
                try:
                    sqlglot.parse(prefix, read=d or None, error_level=ErrorLevel[level])
                finally:
                    sys.setprofile(None)
            except (SqlglotError, RecursionError):
                pass
            except WorkExceeded:
                b = "prefix|work-bound-exceeded|parse"
                det = f"{d or 'base'} {level}: more than {counter.limit} calls for {len(prefix)} characters: {prefix[:300]!r}"
            except Exception as e:
                b = f"prefix|parse|{type(e).__name__}|{_site(e)}"
                det = f"{d or 'base'} {level}: {prefix[:400]!r}: {type(e).__name__}: {str(e)[:200]}"
            if b and (only_bucket is None or b == only_bucket):
                res.fail(b, {"text": prefix, "dialect": d, "other": "", "level": level, "prefix": True}, det)
            res.evaluations += 1
    res.classes["class:P"] += n
    res.extra["prefixes_parsed"] = res.extra.get("prefixes_parsed", 0) + n


def run_shard(spec, seed, res, only_bucket=None):
    if not _preload(res, only_bucket):
        return None
    if spec.get("kind") == "prefix":
        prefix_sweep(spec["part"], spec["parts"], res, only_bucket)
        return None
    if spec.get("kind") == "sweep":
        sweep(spec["part"], res, only_bucket)
        return None
    return core.drive(cases(spec["depth"]), check_case, seed, spec["n"], res, only_bucket)


def replay(case):
    logging.getLogger("sqlglot").setLevel(logging.CRITICAL)
    if case.get("prefix"):
        f, _ = run_one(case["text"], case["dialect"], "", case["level"], True)
        return [("prefix|" + b, d) for b, d in f if b.startswith(("parse|", "work-bound"))]
    if "text" in case:
        f, _ = run_one(case["text"], case["dialect"], case.get("other", ""), case["level"], True, exclude=not case.get("no_exclusion"))
        return [(("strict|" if case.get("strict") else "garbage|") + b, d) for b, d in f]
    return check_case(case, None)


MIN_CLASSES = {"quick": {"class:V": 1500, "class:M": 5000, "class:K": 1500, "class:U": 700, "class:S": 1500, "class:F": 2500, "raised": 4000, "incomplete-tree": 300, "work-counted": 4000}}
