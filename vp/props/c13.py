"""C13 — source positions of tokens, nodes and errors select the text they describe."""
from __future__ import annotations

import logging
import re

from hypothesis import strategies as st

from vp import core
from vp.gen import sqlcore

ID = "C13"
LEVEL = "exploration"
RULE = (
    "Hypothesis builds core-grammar statements, re-spaces every gap with generated whitespace (space, tab, LF, CR, CRLF, runs) and line/block comments, optionally injects "
    "multi-byte / astral characters into strings and quoted identifiers, and optionally mutates tokens (delete/duplicate/swap/truncate) to get invalid input; x all 34 dialects. "
    "Oracle (independent reference model computed from offsets): tokens are in source order, inside the input and non-overlapping (tokens that share one lexeme by design are "
    "grouped); the text between consecutive tokens is only whitespace and comment syntax of that dialect; each token's (line, col) equals the reference position of its last "
    "character (line breaks LF, CR, CRLF counted once); VAR/keyword lexemes equal the token text case-insensitively modulo whitespace folding; every ParseError entry's "
    "line/col is some token's and start_context+highlight+end_context is a contiguous slice of the input whose highlight is that token's lexeme; TokenError start/end select "
    "the quoted snippet; Identifier/Column/Table meta start/end select a lexeme that denotes the node's name. Non-trivial = input spans >=2 lines, or has a multi-byte "
    "character or a comment; distinct = distinct (text, dialect)."
)
ASSUMPTIONS = ["Token.line/col describe the token's LAST character and Token.end is inclusive (documented behaviour of the tokenizer)"]

WS = (" ", " ", "\t", "\n", "\r\n", "\r", "  ", "\n\n", " \n ", "\n\t")
COMMENTS = ("/* c */", "/* multi\nline */", "-- note\n", "/**/", "/* é😀 */")
MB = ("é", "😀", "漢字", "́a", "ß")


def respace(sql, choices):
    """Replace every space outside quotes by the drawn whitespace/comment (choices is cycled)."""
    out = []
    i = 0
    q = None
    k = 0
    while i < len(sql):
        ch = sql[i]
        if q:
            out.append(ch)
            if ch == q:
                q = None
        elif ch in "'\"":
            q = ch
            out.append(ch)
        elif ch == " ":
            out.append(choices[k % len(choices)])
            k += 1
        else:
            out.append(ch)
        i += 1
    return "".join(out)


@st.composite
def cases(draw, depth):
    stmt = draw(sqlcore.statement(depth))
    sql = stmt["sql"]
    n = draw(st.integers(1, 12))
    choices = [draw(st.sampled_from(WS + WS + COMMENTS)) for _ in range(n)]
    text = respace(sql, choices)
    if draw(st.integers(0, 2)) == 0:
        mb = draw(st.sampled_from(MB))
        brk = draw(st.sampled_from(("\n", "\r\n", "\r", "\n\r")))
        # literals / quoted identifiers spanning 1-5 lines (segments of different lengths, so "column after the FIRST break"
        # and "column after the LAST break" differ), possibly with mixed break styles
        def multi(first):
            segs = [first] + [draw(st.sampled_from(("", "b", "cc", mb, "dddd " + mb))) for _ in range(draw(st.integers(1, 4)))]
            return "".join(seg + (draw(st.sampled_from((brk, brk, "\n"))) if i < len(segs) - 1 else "") for i, seg in enumerate(segs))

        text = text.replace("'x'", f"'{mb}'").replace('"Col"', f'"C{mb}l"' if draw(st.booleans()) else f'"{multi("C")}"').replace("'abc'", f"'{multi('a' + mb)}'").replace("'a b'", f"'{multi('a')}'")
    if draw(st.integers(0, 3)) == 0:
        # constructs whose scanning looks AHEAD or consumes two characters at once: positional parameters ($1 -- a dollar sign
        # starts a heredoc-tag lookahead in several dialects), a backslash followed by a real line break inside a string,
        # dollar-quoted strings spanning lines
        brk2 = draw(st.sampled_from(("\n", "\r\n", "\n\n")))
        extra = draw(st.sampled_from((f"$1{brk2}, $2", f"'p\\{brk2}q'", f"$1 + $2{brk2}", f"$$d{brk2}e$$", f"$t$d{brk2}e$t${brk2}", f":p1{brk2}, @v", f"'r\\\\'{brk2}")))
        text = text.replace("SELECT ", f"SELECT {extra}, ", 1) if "SELECT " in text else text
    mutation = draw(st.sampled_from((None, None, None, "truncate", "drop", "dup", "swap")))
    pos = draw(st.integers(0, 1000))
    return {"sql": text, "mutation": mutation, "pos": pos, "dialects": draw(st.lists(st.sampled_from(sqlcore.dialect_names()), min_size=4, max_size=4, unique=True))}


def _mutate(sql, mutation, pos, toks):
    if not mutation or len(toks) < 3:
        return sql
    i = pos % (len(toks) - 1)
    a, b = toks[i], toks[i + 1]
    if mutation == "truncate":
        return sql[: a.end + 1]
    if mutation == "drop":
        return sql[: a.start] + sql[a.end + 1 :]
    if mutation == "dup":
        return sql[: a.end + 1] + " " + sql[a.start : a.end + 1] + sql[a.end + 1 :]
    return sql[: a.start] + sql[b.start : b.end + 1] + sql[a.end + 1 : b.start] + sql[a.start : a.end + 1] + sql[b.end + 1 :]


def ref_pos(sql, k):
    """(line, col) of the character at offset k: a line break is LF, or CR not followed by LF."""
    line, last = 1, -1
    for i in range(k):
        ch = sql[i]
        if ch == "\n" or (ch == "\r" and not (i + 1 < len(sql) and sql[i + 1] == "\n")):
            line += 1
            last = i
    return line, k - last


def _comment_syntax(d):
    from sqlglot.dialects.dialect import Dialect

    tk = Dialect.get_or_raise(d or None).tokenizer_class
    out = []
    for c in tk.COMMENTS:
        out.append((c, None) if isinstance(c, str) else (c[0], c[1]))
    return out, bool(getattr(tk, "NESTED_COMMENTS", True))


def gap_ok(gap, syntax, nested):
    i = 0
    n = len(gap)
    while i < n:
        if gap[i].isspace():
            i += 1
            continue
        for start, end in sorted(syntax, key=lambda x: -len(x[0])):
            if gap.startswith(start, i):
                if end is None:
                    j = i
                    while j < n and gap[j] not in "\n\r":
                        j += 1
                    i = j
                else:
                    depth = 1
                    j = i + len(start)
                    while j < n and depth:
                        if gap.startswith(end, j):
                            depth -= 1
                            j += len(end)
                        elif nested and gap.startswith(start, j):
                            depth += 1
                            j += len(start)
                        else:
                            j += 1
                    if depth:
                        return False
                    i = j
                break
        else:
            return False
    return True


def check_text(sql, d, res=None):
    import sqlglot
    from sqlglot import exp
    from sqlglot.dialects.dialect import Dialect
    from sqlglot.errors import ParseError, SqlglotError, TokenError
    from sqlglot.tokens import TokenType

    dd = d or None
    fails = []
    dia = Dialect.get_or_raise(dd)
    try:
        toks = dia.tokenize(sql)
    except TokenError as e:
        if e.start is not None and e.end is not None:
            if not (0 <= e.start <= e.end <= len(sql)) or f"'{sql[e.start:e.end]}'" not in str(e):
                fails.append((f"token-error-snippet|{d or 'base'}", f"{sql!r}: start={e.start} end={e.end} message {str(e)[:120]!r}"))
        return fails, None
    except SqlglotError:
        return fails, None
    syntax, nested = _comment_syntax(d)
    prev = None
    groups = []
    for t in toks:
        if t.token_type.name == "HIVE_TOKEN_STREAM":
            continue  # Athena's routing marker: a synthetic token that is not source text
        if not (0 <= t.start <= t.end < len(sql)):
            fails.append((f"token-outside-input|{d or 'base'}", f"{sql!r}: {t.token_type.name} {t.text!r} start={t.start} end={t.end} len={len(sql)}"))
            return fails, toks
        if groups and (t.start, t.end) == (groups[-1].start, groups[-1].end):
            continue  # several tokens describing one lexeme (e.g. numeric suffix casts)
        groups.append(t)
    for t in groups:
        if prev is not None:
            if t.start <= prev.end:
                # a token contained in the previous one: command tails / string continuation share text by design only if fully nested at the end
                fails.append((f"tokens-overlap-or-unordered|{d or 'base'}|{prev.token_type.name}>{t.token_type.name}", f"{sql!r}: {prev.token_type.name}[{prev.start},{prev.end}] then {t.token_type.name}[{t.start},{t.end}]"))
                break
            gap = sql[prev.end + 1 : t.start]
            if gap and not gap_ok(gap, syntax, nested):
                fails.append((f"gap-not-whitespace-or-comment|{d or 'base'}", f"{sql!r}: between {prev.text!r} and {t.text!r}: {gap!r}"))
                break
        line, col = ref_pos(sql, t.end)
        if (t.line, t.col) != (line, col):
            fails.append((f"line-col|{d or 'base'}|{_kind(t, sql)}", f"{sql!r}: token {t.token_type.name} {t.text!r} at end offset {t.end}: reported ({t.line},{t.col}) reference ({line},{col})"))
            break
        if t.token_type == TokenType.VAR:
            lex = sql[t.start : t.end + 1]
            if lex != t.text:
                fails.append((f"var-lexeme|{d or 'base'}", f"{sql!r}: VAR text {t.text!r} but offsets select {lex!r}"))
                break
        prev = t
    return fails, toks


def _kind(t, sql):
    lex = sql[t.start : t.end + 1]
    if any(c in lex for c in "\n\r"):
        return "multi-line-" + ("keyword" if t.text.replace(" ", "").isalpha() else t.token_type.name)
    return "after-multi-line"


def check_case(case, res=None):
    import sqlglot
    from sqlglot import exp
    from sqlglot.errors import ParseError, SqlglotError

    logging.getLogger("sqlglot").setLevel(logging.CRITICAL)
    fails = []
    for d in case["dialects"]:
        sql = case["sql"]
        f, toks = check_text(sql, d)
        if toks and case["mutation"]:
            sql = _mutate(sql, case["mutation"], case["pos"], toks)
            f2, toks = check_text(sql, d)
            f = f + f2
        nontrivial = ("\n" in sql or "\r" in sql) or any(ord(c) > 127 for c in sql) or "/*" in sql or "--" in sql
        if res is not None:
            res.case(core.h8([sql, d]), nontrivial, [f"dialect:{d or 'base'}"] + ([f"mutation:{case['mutation']}"] if case["mutation"] else []) + (["multi-byte"] if any(ord(c) > 127 for c in sql) else []) + (["crlf"] if "\r" in sql else []))
        fails.extend(f)
        if f or toks is None:
            continue
        by_pos = {}
        for t in toks:
            by_pos.setdefault((t.line, t.col), t)
        try:
            tree = sqlglot.parse_one(sql, dialect=d or None)
        except ParseError as e:
            if res is not None:
                res.classes["parse-error-checked"] += 1
            for err in e.errors:
                t = by_pos.get((err.get("line"), err.get("col")))
                if t is None:
                    if toks and (err.get("line"), err.get("col")) != (1, 1):
                        fails.append((f"error-position-not-a-token|{d or 'base'}", f"{sql!r}: error at ({err.get('line')},{err.get('col')}): {err.get('description')}"))
                    continue
                ctx = (err.get("start_context") or "") + (err.get("highlight") or "") + (err.get("end_context") or "")
                if ctx not in sql:
                    fails.append((f"error-context-not-a-slice|{d or 'base'}", f"{sql!r}: context {ctx!r}"))
                elif (err.get("highlight") or "") != sql[t.start : t.end + 1]:
                    fails.append((f"error-highlight-not-the-token|{d or 'base'}", f"{sql!r}: highlight {err.get('highlight')!r} token lexeme {sql[t.start:t.end + 1]!r}"))
            continue
        except (SqlglotError, RecursionError):
            continue
        except Exception:
            continue  # internal exceptions on mutated text are C05's subject
        if tree is None:
            continue
        for n in tree.find_all(exp.Identifier):
            m = n.meta
            if not m or "start" not in m or "end" not in m:
                continue
            if res is not None:
                res.extra["node_positions_checked"] = res.extra.get("node_positions_checked", 0) + 1
            s, e_ = m["start"], m["end"]
            if not (0 <= s <= e_ < len(sql)):
                fails.append((f"node-position-outside|{d or 'base'}", f"{sql!r}: {n.sql()!r} start={s} end={e_}"))
                break
            lex = sql[s : e_ + 1]
            name = n.name
            # a lexeme with a backslash may spell the value through an escape sequence ('a\b' -> a<BS> in Redshift): no text comparison then
            # (a delimiter inside the value is written doubled: "a""b", 'it''s', `a``b`, [a]]b])
            spellings = {name, name.replace('"', '""'), name.replace("'", "''"), name.replace("`", "``"), name.replace("]", "]]")}
            if "\\" not in lex and not any(sp.lower() in lex.lower() for sp in spellings):
                fails.append((f"node-position-wrong-lexeme|{d or 'base'}", f"{sql!r}: identifier {name!r} meta selects {lex!r}"))
                break
            line, col = ref_pos(sql, e_)
            if (m.get("line"), m.get("col")) != (line, col):
                fails.append((f"node-line-col|{d or 'base'}", f"{sql!r}: identifier {name!r} meta ({m.get('line')},{m.get('col')}) reference ({line},{col})"))
                break
    if res is not None and not fails:
        res.sample({"sql": case["sql"][:200], "dialects": case["dialects"]}, cls=str(case["mutation"]))
    return fails


def plan(tier):
    return [{"n": 400, "depth": 3}] * 16 if tier == "quick" else [{"n": 8000, "depth": 3}] * 32 + [{"n": 2500, "depth": 5}] * 16


def run_shard(spec, seed, res, only_bucket=None):
    return core.drive(cases(spec["depth"]), check_case, seed, spec["n"], res, only_bucket)


def replay(case):
    return check_case(case, None)


MIN_CLASSES = {"quick": {"multi-byte": 1000, "crlf": 2000, "parse-error-checked": 300}}
