"""C18 — MappingSchema lookups always reflect the current registrations (histories vs a lookup-free replay)."""
from __future__ import annotations

import itertools
import logging

from hypothesis import strategies as st

from vp import core

ID = "C18"
LEVEL = "exploration"
RULE = (
    "Histories: Hypothesis generates a schema configuration (nesting depth 1-3, dialect with lower/upper/case-sensitive/case-insensitive identifier rules, normalize flag, "
    "initial mapping) and a sequence of 1-14 operations over a universe of 2 catalogs x 2 dbs x 3 tables x 3 columns with lower / Mixed / quoted names: add_table (new table, "
    "update with new columns, same table name in another db or catalog, empty mapping, per-call normalize/dialect, match_depth) interleaved with column_names, get_column_type, "
    "has_column and find on fully and partially qualified names given as strings and as exp.Table. Oracle: after every lookup, the answer (value, or exception class and message) "
    "of the instance under test equals the answer of a brand-new MappingSchema that received the same add_table calls and no earlier lookup. All histories of length <=3 over a "
    "reduced universe are enumerated exhaustively for depth 2. Non-trivial = a lookup of a name precedes an add_table after which the same lookup answers differently; "
    "distinct = distinct histories."
)
ASSUMPTIONS = ["'a schema freshly constructed from the final mapping' is realised as a replay of the same add_table calls on a new instance (keys are normalised once, as on the original)"]

CATS = ("c1", "c2")
DBS = ("db1", "db2")
TABLES = ("t", "u", "Tb", '"Qt"')
COLS = ("a", "b", "Cc", '"Qc"')
TYPES = ("INT", "TEXT", "DOUBLE")
DIALECTS = (None, "snowflake", "postgres", "mysql", "bigquery", "duckdb")


def _name(draw, depth_max):
    t = draw(st.sampled_from(TABLES))
    k = draw(st.integers(1, depth_max))
    parts = [t]
    if k >= 2:
        parts.insert(0, draw(st.sampled_from(DBS)))
    if k >= 3:
        parts.insert(0, draw(st.sampled_from(CATS)))
    return ".".join(parts)


@st.composite
def simple_histories(draw, max_len):
    """Histories the dict model can predict (lower-case names, default flags, full-depth registrations)."""
    depth = draw(st.integers(1, 3))
    ops = []
    for _ in range(draw(st.integers(1, max_len))):
        parts = [draw(st.sampled_from(("t", "u")))]
        if depth >= 2:
            parts.insert(0, draw(st.sampled_from(DBS)))
        if depth >= 3:
            parts.insert(0, draw(st.sampled_from(CATS)))
        if draw(st.integers(0, 2)) == 0:
            ops.append({"op": "add", "table": ".".join(parts), "cols": {c: "INT" for c in draw(st.lists(st.sampled_from(("a", "b", "z")), max_size=2, unique=True))}})
        else:
            k = draw(st.integers(1, depth))
            ops.append({"op": "cols", "table": ".".join(parts[-k:]), "as_expr": draw(st.booleans())})
    return {"depth": depth, "dialect": None, "normalize": True, "init": draw(st.booleans()), "ops": ops}


@st.composite
def histories(draw, max_len):
    if draw(st.integers(0, 3)) == 0:
        return draw(simple_histories(max_len))
    depth = draw(st.integers(1, 3))
    dialect = draw(st.sampled_from(DIALECTS))
    normalize = draw(st.sampled_from((True, True, False)))
    init = draw(st.booleans())
    ops = []
    for _ in range(draw(st.integers(1, max_len))):
        k = draw(st.integers(0, 9))
        if k < 4:
            full = draw(st.integers(0, 5)) > 0
            name = _name(draw, depth) if not full else ".".join(([draw(st.sampled_from(CATS))] if depth >= 3 else []) + ([draw(st.sampled_from(DBS))] if depth >= 2 else []) + [draw(st.sampled_from(TABLES))])
            cols = {c: draw(st.sampled_from(TYPES)) for c in draw(st.lists(st.sampled_from(COLS), min_size=0, max_size=3, unique=True))}
            op = {"op": "add", "table": name, "cols": cols}
            if draw(st.integers(0, 5)) == 0:
                op["normalize"] = draw(st.booleans())
            if draw(st.integers(0, 7)) == 0:
                op["match_depth"] = False
            ops.append(op)
        elif k < 7 and any(o["op"] != "add" for o in ops) and ops[-1]["op"] == "add":
            # ask again what was asked before the registration
            ops.append(dict(draw(st.sampled_from([o for o in ops if o["op"] != "add"]))))
        else:
            name = _name(draw, depth)
            kind = ("cols", "type", "has", "find", "cols", "cols")[k - 4]
            op = {"op": kind, "table": name, "as_expr": draw(st.booleans())}
            if kind in ("type", "has"):
                op["col"] = draw(st.sampled_from(COLS))
            ops.append(op)
    return {"depth": depth, "dialect": dialect, "normalize": normalize, "init": init, "ops": ops}


def _initial(depth):
    base = {"t": {"a": "INT", "b": "TEXT"}}
    if depth == 1:
        return dict(base)
    if depth == 2:
        return {"db1": dict(base)}
    return {"c1": {"db1": dict(base)}}


def _new(case):
    import copy

    from sqlglot.schema import MappingSchema

    return MappingSchema(copy.deepcopy(_initial(case["depth"])) if case["init"] else None, dialect=case["dialect"], normalize=case["normalize"])


def _apply(schema, op, dialect):
    """Returns ('ok', value) or ('err', class name, message)."""
    from sqlglot import exp
    from sqlglot.errors import SqlglotError

    try:
        tbl = op["table"]
        if op["op"] == "add":
            kw = {}
            if "normalize" in op:
                kw["normalize"] = op["normalize"]
            if "match_depth" in op:
                kw["match_depth"] = op["match_depth"]
            schema.add_table(tbl, dict(op["cols"]) if op["cols"] else None, **kw)
            return ("ok", None)
        target = exp.to_table(tbl, dialect=dialect) if op.get("as_expr") else tbl
        if op["op"] == "cols":
            return ("ok", list(schema.column_names(target)))
        if op["op"] == "type":
            return ("ok", schema.get_column_type(target, op["col"]).sql())
        if op["op"] == "has":
            return ("ok", bool(schema.has_column(target, op["col"])))
        if op["op"] == "find":
            t = exp.to_table(tbl, dialect=dialect)
            r = schema.find(schema._normalize_table(t) if False else t, raise_on_missing=False)
            return ("ok", None if r is None else {str(k): str(v) for k, v in r.items()})
    except SqlglotError as e:
        return ("err", type(e).__name__, str(e))
    except RecursionError:
        raise
    except Exception as e:
        return ("exc", type(e).__name__, str(e)[:200])
    raise ValueError(op["op"])


def run_history(case, res=None):
    logging.getLogger("sqlglot").setLevel(logging.CRITICAL)
    try:
        live = _new(case)
    except Exception:
        return []
    adds = []
    fails = []
    answers = {}
    nontrivial = False
    for i, op in enumerate(case["ops"]):
        got = _apply(live, op, case["dialect"])
        if op["op"] == "add":
            adds.append(op)
            continue
        # lookup-free replay: a new instance, the same registrations, only this one lookup
        fresh = _new(case)
        for a in adds:
            _apply(fresh, a, case["dialect"])
        want = _apply(fresh, op, case["dialect"])
        key = (op["op"], op["table"], op.get("col"), op.get("as_expr"))
        if key in answers and answers[key] != want:
            nontrivial = True
        answers[key] = want
        if op["op"] == "cols" and _simple(case):
            exp_model = _model_columns(case, adds, op["table"])
            if exp_model is not None and exp_model != _shape(want):
                fails.append((f"model-disagrees|cols|depth{case['depth']}", f"step {i} {op} of {case}: MappingSchema answers {want}, dict model expects {exp_model}"))
                break
        if got != want:
            fails.append((f"stale-or-divergent|{op['op']}|depth{case['depth']}", f"step {i} {op} of {case}: instance with lookup history answers {got}, lookup-free replay answers {want}"))
            break
    if res is not None:
        res.case(core.h8(case), nontrivial, [f"depth:{case['depth']}", f"dialect:{case['dialect']}", f"normalize:{case['normalize']}"] + (["answer-changed-by-add"] if nontrivial else []))
        if nontrivial and not fails:
            res.sample({"depth": case["depth"], "dialect": case["dialect"], "ops": [f"{o['op']}:{o['table']}" for o in case["ops"]]}, cls=str(case["depth"]))
    return fails


_LOWER = {"t", "u", "db1", "db2", "c1", "c2", "a", "b", "z"}


def _simple(case):
    """Histories a tiny dict model can predict: default dialect, normalize on, lower-case unquoted names, default add_table flags, full-depth registrations."""
    if case["dialect"] is not None or not case["normalize"]:
        return False
    for o in case["ops"]:
        if any(p not in _LOWER for p in o["table"].split(".")):
            return False
        if o["op"] == "add" and ("normalize" in o or "match_depth" in o or len(o["table"].split(".")) != case["depth"] or any(c not in _LOWER for c in o["cols"])):
            return False
    return True


def _model_columns(case, adds, name):
    model = {}
    if case["init"]:
        model[{1: ("t",), 2: ("db1", "t"), 3: ("c1", "db1", "t")}[case["depth"]]] = ["a", "b"]
    for a in adds:
        path = tuple(a["table"].split("."))
        if path in model and not a["cols"]:
            continue
        model[path] = list(a["cols"])
    parts = tuple(name.split("."))
    if len(parts) > case["depth"]:
        return None
    hits = [p for p in model if p[-len(parts):] == parts]
    if not hits:
        return ("ok", [])
    if len(hits) == 1:
        return ("ok", model[hits[0]])
    return ("err", "SchemaError")


def _shape(answer):
    return (answer[0], answer[1]) if answer[0] in ("err", "exc") else answer


def exhaustive(res, length):
    names = ("t", "db1.t", "db2.t", "u", "db1.u")
    ops = [{"op": "add", "table": n, "cols": c} for n in names[1:] for c in ({"a": "INT"}, {"z": "TEXT"})]
    ops += [{"op": k, "table": n, "as_expr": False} for n in names for k in ("cols",)] + [{"op": "has", "table": n, "col": "z", "as_expr": True} for n in names[:3]]
    n = 0
    for init in (True, False):
        for hist in itertools.product(ops, repeat=length):
            if not any(o["op"] != "add" for o in hist):
                continue
            case = {"depth": 2, "dialect": None, "normalize": True, "init": init, "ops": list(hist)}
            for b, d in run_history(case, res):
                res.fail(b, case, d)
            n += 1
    res.extra["exhaustive_histories"] = n


def plan(tier):
    if tier == "quick":
        return [{"kind": "hyp", "n": 700, "len": 14}] * 14 + [{"kind": "exh", "len": 2}, {"kind": "exh", "len": 3}]
    return [{"kind": "hyp", "n": 12000, "len": 20}] * 44 + [{"kind": "exh", "len": 3}, {"kind": "exh", "len": 4}]


def run_shard(spec, seed, res, only_bucket=None):
    if spec["kind"] == "exh":
        exhaustive(res, spec["len"])
        res.exhaustive = False
        return None
    return core.drive(histories(spec["len"]), run_history, seed, spec["n"], res, only_bucket)


def replay(case):
    return run_history(case, None)


def minimize(case, bucket):
    ops = core.ddmin(list(case["ops"]), lambda sub: any(b == bucket for b, _ in run_history(dict(case, ops=sub), None)))
    return dict(case, ops=ops)


MIN_CLASSES = {"quick": {"answer-changed-by-add": 300, "depth:2": 1500, "depth:3": 1500}}
