"""C14 — error levels change how problems are reported, never what is produced."""
from __future__ import annotations

import logging

from hypothesis import strategies as st

from vp import core
from vp.gen import sqlcore
from vp.oracle import fingerprint as F
from vp.props.c05 import PUNCT, _apply_muts

ID = "C14"
LEVEL = "exploration"
RULE = (
    "Parsing: Hypothesis builds scripts of 1-3 statements, each valid or token-mutated, x drawn dialect x max_errors in {1,2,3,10}; the same text is parsed by four Parser "
    "objects (IGNORE, WARN, RAISE, IMMEDIATE) with a capturing handler on the 'sqlglot' logger. Relation: a TokenError is identical at all levels (outside the parser's domain); "
    "IGNORE and WARN return without raising and their trees are equal (== and fingerprint); RAISE raises ParseError <=> WARN logged >=1 error record, its message is the first "
    "min(n, max_errors) WARN records joined by blank lines plus '... and k more', and e.errors has n entries; IMMEDIATE raises <=> WARN logged, with the first WARN record; "
    "each Parser's error_level is unchanged afterwards. Generation: core trees x (read, write) dialect pairs x unsupported_level x max_unsupported: texts under IGNORE/WARN/RAISE "
    "are identical whenever returned; RAISE and IMMEDIATE raise UnsupportedError <=> WARN logged >=1 unsupported message; RAISE's message is built from the first max_unsupported "
    "messages, IMMEDIATE's is the first. Non-trivial = WARN logged at least one record; distinct = distinct (text, dialect, max) / (tree, read, write, max)."
)
ASSUMPTIONS = ["records are captured from the 'sqlglot' logger at ERROR (parser) and WARNING (generator) level; the 'falling back to Command' warning is not an error record"]


SPICY = (
    # constructs for which several target dialects call Generator.unsupported() (measured over all 34 dialects)
    "TO_CHAR(ts, 'YYYY')", "LEVENSHTEIN(a, b, 1, 2, 3)", "REGEXP_EXTRACT(a, 'x', 1)", "LAST_VALUE(a IGNORE NULLS) OVER (ORDER BY b)", "UNNEST([1, 2])", "MAP(['a'], [1])",
    "TO_CHAR(ts, 'MM')", "LEVENSHTEIN(b, c, 2, 2, 2)", "a ILIKE 'x%'", "MEDIAN(a)",
    " TABLESAMPLE (10 PERCENT)", " FOR UPDATE", " ORDER BY a NULLS FIRST",
)


class _Capture(logging.Handler):
    def __init__(self):
        super().__init__(level=logging.DEBUG)
        self.records = []

    def emit(self, record):
        self.records.append((record.levelno, record.getMessage()))


def _with_capture(fn):
    logger = logging.getLogger("sqlglot")
    h = _Capture()
    old_level, old_handlers, old_prop = logger.level, list(logger.handlers), logger.propagate
    logger.handlers = [h]
    logger.setLevel(logging.DEBUG)
    logger.propagate = False
    try:
        out = fn()
    except BaseException as e:
        out = e
    finally:
        logger.handlers = old_handlers
        logger.setLevel(old_level)
        logger.propagate = old_prop
    return out, h.records


@st.composite
def cases(draw, depth):
    mode = draw(st.sampled_from(("parse", "parse", "generate")))
    names = sqlcore.dialect_names()
    if mode == "generate":
        if draw(st.integers(0, 2)) == 0:
            # constructs many target dialects cannot express: drives the unsupported-message paths (incl. several messages per statement)
            parts = draw(st.lists(st.sampled_from(SPICY), min_size=1, max_size=4, unique=True))
            sql = "SELECT " + ", ".join(p for p in parts if not p.startswith(" ")) if any(not p.startswith(" ") for p in parts) else "SELECT a"
            sql += " FROM t" + "".join(p for p in parts if p.startswith(" "))
            return {"mode": mode, "sql": sql, "read": "", "write": draw(st.sampled_from(names)), "max": draw(st.sampled_from((1, 2, 3, 10)))}
        return {"mode": mode, "sql": draw(sqlcore.statement(depth))["sql"], "read": draw(st.sampled_from(names)), "write": draw(st.sampled_from(names)), "max": draw(st.sampled_from((1, 2, 3, 10)))}
    n = draw(st.integers(1, 3))
    stmts = []
    delegating = draw(st.integers(0, 11)) == 0
    for _ in range(n):
        if delegating:
            # a dialect that hands statements to OTHER dialects' parsers (Athena: DDL to Hive, queries to Trino) has to pass the
            # error level on to each of them
            s = draw(st.sampled_from(("DROP TABLE t", "ALTER TABLE t ADD COLUMNS (c INT)", "CREATE EXTERNAL TABLE t (a INT, b STRING) LOCATION 's3://x'", "CREATE TABLE t (a INT)", "SELECT a FROM t WHERE b = 1", "CREATE TABLE t AS SELECT a FROM u", "DESCRIBE t", "INSERT INTO t SELECT a FROM u")))
        else:
            s = draw(sqlcore.statement(depth))["sql"]
        if draw(st.integers(0, 2)) > 0:
            muts = [{"op": draw(st.sampled_from(("delete", "insert", "swap", "dup", "replace", "truncate"))), "i": draw(st.integers(0, 200)), "j": draw(st.integers(0, 200)), "tok": draw(st.sampled_from(PUNCT + ["SELECT", "FROM", "WHERE", "AND", "AS", "ON", "BY", "CASE", "END"]))} for _ in range(draw(st.integers(1, 2)))]
        else:
            muts = []
        stmts.append({"sql": s, "muts": muts})
    return {"mode": mode, "stmts": stmts, "dialect": "athena" if delegating else draw(st.sampled_from(names)), "max": draw(st.sampled_from((1, 2, 3, 10)))}


def check_parse(case, res=None):
    from sqlglot import ErrorLevel
    from sqlglot.dialects.dialect import Dialect
    from sqlglot.errors import ParseError, SqlglotError, TokenError

    d = case["dialect"]
    dia = Dialect.get_or_raise(d or None)
    text = "; ".join(_apply_muts(s["sql"], d, s["muts"]) if s["muts"] else s["sql"] for s in case["stmts"])
    label = f"{d or 'base'} max_errors={case['max']} {text[:500]!r}"
    try:
        tokens = dia.tokenize(text)
    except TokenError:
        if res is not None:
            res.out_of_domain["token-error"] += 1
        return []
    except SqlglotError:
        return []
    out = {}
    for lvl in ("IGNORE", "WARN", "RAISE", "IMMEDIATE"):
        p = dia.parser(error_level=ErrorLevel[lvl], max_errors=case["max"])
        r, recs = _with_capture(lambda: p.parse(list(tokens), text))
        out[lvl] = (r, [m for lv, m in recs if lv >= logging.ERROR], p.error_level)
    fails = []
    for lvl, (r, recs, after) in out.items():
        if isinstance(r, RecursionError):
            return []
        if isinstance(r, BaseException) and not isinstance(r, SqlglotError):
            return []  # leaked internal exception: C05's subject, the relation is undefined here
        if after != ErrorLevel[lvl]:
            fails.append((f"error-level-changed|{lvl}", f"{label}: parser.error_level is {after} after the call"))
    ig, wa, ra, im = out["IGNORE"], out["WARN"], out["RAISE"], out["IMMEDIATE"]
    warn_recs = wa[1]
    if isinstance(ig[0], BaseException):
        fails.append(("ignore-raises", f"{label}: {type(ig[0]).__name__}: {str(ig[0])[:200]}"))
    if isinstance(wa[0], BaseException):
        fails.append(("warn-raises", f"{label}: {type(wa[0]).__name__}: {str(wa[0])[:200]}"))
    if ig[1]:
        fails.append(("ignore-logs-errors", f"{label}: {ig[1][:2]}"))
    if not isinstance(ig[0], BaseException) and not isinstance(wa[0], BaseException):
        a, b = ig[0], wa[0]
        same = len(a) == len(b) and all((x is None and y is None) or (x is not None and y is not None and x == y and F.fingerprint(x) == F.fingerprint(y)) for x, y in zip(a, b))
        if not same:
            fails.append(("ignore-warn-trees-differ", f"{label}"))
    raised = isinstance(ra[0], ParseError)
    if raised != bool(warn_recs):
        fails.append(("raise-iff-warn-logged", f"{label}: RAISE raised={raised} but WARN logged {len(warn_recs)} record(s): {warn_recs[:1]}"))
    elif raised:
        e = ra[0]
        n = len(e.errors)
        want = "\n\n".join(warn_recs[: min(n, case["max"])])
        if n > case["max"]:
            want += f"\n\n... and {n - case['max']} more"
        if n > len(warn_recs) or str(e) != want:
            fails.append(("raise-message", f"{label}: str(e)={str(e)[:300]!r} expected {want[:300]!r} (n={n}, WARN records={len(warn_recs)})"))
    imm = isinstance(im[0], ParseError)
    if imm != bool(warn_recs):
        fails.append(("immediate-iff-warn-logged", f"{label}: IMMEDIATE raised={imm}, WARN logged {len(warn_recs)}"))
    elif imm and str(im[0]) != warn_recs[0]:
        fails.append(("immediate-message", f"{label}: {str(im[0])[:200]!r} vs first WARN record {warn_recs[0][:200]!r}"))
    if res is not None:
        res.case(core.h8([text, d, case["max"]]), bool(warn_recs), ["mode:parse", f"stmts:{len(case['stmts'])}"] + (["with-errors"] if warn_recs else ["clean"]) + ([">max-errors"] if raised and len(ra[0].errors) > case["max"] else []))
        if not fails and warn_recs:
            res.sample({"text": text[:200], "dialect": d, "max_errors": case["max"], "errors": len(warn_recs)}, cls=f"parse{len(case['stmts'])}")
    return fails


def check_generate(case, res=None):
    import sqlglot
    from sqlglot import ErrorLevel
    from sqlglot.errors import SqlglotError, UnsupportedError

    logging.getLogger("sqlglot").setLevel(logging.CRITICAL)
    try:
        tree = sqlglot.parse_one(case["sql"], dialect=case["read"] or None)
    except (SqlglotError, RecursionError):
        if res is not None:
            res.out_of_domain["does-not-parse-in-read-dialect"] += 1
        return []
    except Exception:
        return []
    label = f"{case['read'] or 'base'}->{case['write'] or 'base'} max_unsupported={case['max']} {case['sql'][:400]!r}"
    out = {}
    for lvl in ("IGNORE", "WARN", "RAISE", "IMMEDIATE"):
        r, recs = _with_capture(lambda: tree.sql(dialect=case["write"] or None, unsupported_level=ErrorLevel[lvl], max_unsupported=case["max"]))
        out[lvl] = (r, [m for lv, m in recs if lv == logging.WARNING])
    for r, _ in out.values():
        if isinstance(r, BaseException) and not isinstance(r, SqlglotError):
            return []
        if isinstance(r, SqlglotError) and not isinstance(r, UnsupportedError):
            return []  # e.g. OptimizeError from a dialect transform: not part of the unsupported-level relation
    fails = []
    ig, wa, ra, im = out["IGNORE"], out["WARN"], out["RAISE"], out["IMMEDIATE"]
    msgs = wa[1]
    for name, (r, _) in (("ignore", ig), ("warn", wa)):
        if isinstance(r, BaseException):
            fails.append((f"gen-{name}-raises", f"{label}: {str(r)[:200]}"))
    if ig[1]:
        fails.append(("gen-ignore-logs", f"{label}: {ig[1][:2]}"))
    texts = [r for r, _ in (ig, wa, ra) if isinstance(r, str)]
    if len(set(texts)) > 1:
        fails.append(("gen-text-depends-on-level", f"{label}: {texts}"))
    raised = isinstance(ra[0], UnsupportedError)
    if raised != bool(msgs):
        fails.append(("gen-raise-iff-warn-logged", f"{label}: RAISE raised={raised}, WARN logged {msgs[:2]}"))
    elif raised:
        want = "\n\n".join(msgs[: case["max"]]) + (f"\n\n... and {len(msgs) - case['max']} more" if len(msgs) > case["max"] else "")
        if str(ra[0]) != want:
            fails.append(("gen-raise-message", f"{label}: {str(ra[0])[:300]!r} expected {want[:300]!r}"))
    imm = isinstance(im[0], UnsupportedError)
    if imm != bool(msgs):
        fails.append(("gen-immediate-iff-warn-logged", f"{label}: IMMEDIATE raised={imm}, WARN logged {msgs[:2]}"))
    elif imm and str(im[0]) != msgs[0]:
        fails.append(("gen-immediate-message", f"{label}: {str(im[0])[:200]!r} vs {msgs[0][:200]!r}"))
    if res is not None:
        res.case(core.h8([case["sql"], case["read"], case["write"], case["max"]]), bool(msgs), ["mode:generate"] + (["unsupported-logged"] if msgs else []) + ([">max-unsupported"] if len(msgs) > case["max"] else []))
        if not fails and msgs:
            res.sample({"sql": case["sql"][:200], "read": case["read"], "write": case["write"], "unsupported": msgs[:2]}, cls="generate")
    return fails


def check_case(case, res=None):
    return check_parse(case, res) if case["mode"] == "parse" else check_generate(case, res)


def plan(tier):
    return [{"n": 500, "depth": 3}] * 16 if tier == "quick" else [{"n": 6000, "depth": 3}] * 40 + [{"n": 2000, "depth": 5}] * 8


def run_shard(spec, seed, res, only_bucket=None):
    return core.drive(cases(spec["depth"]), check_case, seed, spec["n"], res, only_bucket)


def replay(case):
    return check_case(case, None)


MIN_CLASSES = {"quick": {"with-errors": 1500, "unsupported-logged": 150, "mode:generate": 1500, "stmts:3": 500}}
