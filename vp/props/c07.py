"""C07 — generator options (pretty/pad/indent/max_text_width/leading_comma/comments/identify/normalize_functions) never change meaning."""
from __future__ import annotations

import logging

from hypothesis import strategies as st

from vp import core
from vp.gen import sqlcore
from vp.oracle import fingerprint as F
from vp.props.c12 import _inject_comments

ID = "C07"
LEVEL = "exploration"
RULE = (
    "Hypothesis builds core-grammar statements with injected comments, parses each in the base dialect and 5 drawn dialects, and renders the tree with drawn "
    "option vectors from the product pretty x pad/indent 0..4 x max_text_width {1,20,80} x leading_comma x comments x identify {False,True,'safe'} x "
    "normalize_functions {upper,lower,False}. Oracle: the option output reparses in the same dialect to the tree that the default single-line output "
    "reparses to, modulo the option's own dimension (comments stripped for layout options; quoted flags cleared for identify; library == for function case); "
    "no output contains the line-break sentinel; comments=False output has no token carrying a comment; string/identifier token values are identical in "
    "default and pretty output. Non-trivial = pretty output spans >=2 lines / tree has a comment / tree has an unquoted identifier for the option at hand; "
    "distinct = distinct (statement, dialect, option vector)."
)
ASSUMPTIONS = [
    "unsupported_level=IGNORE; a statement that does not parse in d, or whose default output does not reparse in d (C01's subject), is outside this check's domain",
]
SENTINEL = "__SQLGLOT__LB__"


@st.composite
def option_vector(draw):
    fam = draw(st.sampled_from(("pretty", "pretty", "pretty", "comments", "identify", "normalize", "mixed")))
    o = {}
    if fam in ("pretty", "mixed"):
        o["pretty"] = True
        if draw(st.booleans()):
            o["pad"] = draw(st.integers(0, 4))
        if draw(st.booleans()):
            o["indent"] = draw(st.integers(0, 4))
        if draw(st.booleans()):
            o["max_text_width"] = draw(st.sampled_from((1, 20, 80)))
        if draw(st.booleans()):
            o["leading_comma"] = True
    if fam in ("comments", "mixed") or (fam == "pretty" and draw(st.integers(0, 4)) == 0):
        o["comments"] = False
    if fam in ("identify", "mixed"):
        o["identify"] = draw(st.sampled_from((True, "safe")))
    if fam in ("normalize", "mixed"):
        o["normalize_functions"] = draw(st.sampled_from(("upper", "lower", False)))
    return o


@st.composite
def cases(draw, depth, n_opts):
    stmt = draw(sqlcore.statement(depth))
    n = draw(st.integers(0, 3))
    pos = [draw(st.integers(0, 200)) for _ in range(n)]
    txt = [draw(st.sampled_from(("c1", "note: x", "a, b", "multi\nline", "x */ y"[:1] + "y"))) for _ in range(n)]
    names = sqlcore.dialect_names()
    ds = draw(st.lists(st.sampled_from(names[1:]), min_size=5, max_size=5, unique=True))
    return {
        "sql": _inject_comments(stmt["sql"], pos, txt),
        "features": stmt["features"],
        "kind": stmt["kind"],
        "dialects": [""] + ds,
        "opts": [draw(option_vector()) for _ in range(n_opts)],
    }


def _strip(tree, comments=True, quoted=False):
    from sqlglot import exp

    t = tree.copy()
    for n in t.walk():
        if comments:
            n.comments = None
        if quoted and isinstance(n, exp.Identifier) and n.args.get("quoted"):
            n.set("quoted", False)
    return t


def _values(sql, d):
    """(token_type, text) of string / identifier-ish tokens, as lexed by the dialect itself."""
    from sqlglot.dialects.dialect import Dialect
    from sqlglot.tokens import TokenType

    toks = Dialect.get_or_raise(d or None).tokenize(sql)
    keep = {TokenType.STRING, TokenType.IDENTIFIER, TokenType.NATIONAL_STRING, TokenType.RAW_STRING, TokenType.BYTE_STRING, TokenType.NUMBER}
    return [(t.token_type.name, t.text) for t in toks if t.token_type in keep], toks


def check_case(case, res=None):
    import sqlglot
    from sqlglot import exp
    from sqlglot.errors import SqlglotError

    logging.getLogger("sqlglot").setLevel(logging.CRITICAL)
    fails = []
    IGN = sqlglot.ErrorLevel.IGNORE
    for d in case["dialects"]:
        dd = d or None
        try:
            tree = sqlglot.parse_one(case["sql"], dialect=dd)
            s0 = tree.sql(dialect=dd, unsupported_level=IGN)
            T0 = sqlglot.parse_one(s0, dialect=dd)
        except SqlglotError:
            if res is not None:
                res.out_of_domain["no-default-roundtrip-in-dialect"] += 1
            continue
        except RecursionError:
            continue
        try:
            v0, _ = _values(s0, d)
        except SqlglotError:
            continue
        if tree.find(exp.Command) is not None:
            # unsupported syntax kept verbatim as an opaque Command: its text (incl. comments) is not the generator's to format
            if res is not None:
                res.out_of_domain["opaque-command-fallback"] += 1
            continue
        if d in ("tsql", "fabric") and "EXEC(" in s0:
            # known finding C07-tsql-dynamic-sql: the statement is emitted inside a string literal handed to EXEC
            if res is not None:
                res.excluded["C07-tsql-dynamic-sql"] += 1
            if not case.get("strict"):
                continue
        has_comment = any(n.comments for n in tree.walk())
        T0_nc = None
        for o in case["opts"]:
            label = f"{d or 'base'} {o} {case['sql']!r}"
            try:
                s = tree.sql(dialect=dd, unsupported_level=IGN, **o)
            except SqlglotError:
                continue
            except Exception as e:
                fails.append((f"option-output-raises:{type(e).__name__}", f"{label}: {e}"))
                continue
            nontrivial = (o.get("pretty") and "\n" in s) or (o.get("comments") is False and has_comment) or ("identify" in o) or ("normalize_functions" in o)
            if res is not None:
                res.case(core.h8([case["sql"], d, o]), bool(nontrivial), [f"opt:{k}" for k in o] + ([f"multi-line"] if "\n" in s else []) + (["has-comment"] if has_comment else []))
            if SENTINEL in s:
                fails.append(("sentinel-in-output", f"{label}: {s!r}"))
                continue
            try:
                T = sqlglot.parse_one(s, dialect=dd)
            except SqlglotError as e:
                fails.append((f"option-output-does-not-reparse|{'+'.join(sorted(o))}", f"{label}: {s!r}: {str(e)[:200]}"))
                continue
            layout = any(k in o for k in ("pretty", "pad", "indent", "max_text_width", "leading_comma", "comments"))
            a = _strip(T, comments=True, quoted="identify" in o)
            if T0_nc is None:
                T0_nc = {}
            key = "identify" in o
            if key not in T0_nc:
                T0_nc[key] = _strip(T0, comments=True, quoted=key)
            b = T0_nc[key]
            if not (a == b) or F.fingerprint(a) != F.fingerprint(b):
                fails.append((f"meaning-changed|{'+'.join(sorted(o))}", f"{label}: default {s0!r} vs option {s!r}"))
                continue
            if o.get("comments") is False:
                try:
                    _, toks = _values(s, d)
                    if any(t.comments for t in toks):
                        fails.append(("comments-false-emits-comment", f"{label}: {s!r}"))
                except SqlglotError:
                    pass
            elif layout and "identify" not in o and "normalize_functions" not in o:
                # literal and identifier values are untouched by layout
                try:
                    v, _ = _values(s, d)
                    if v != v0:
                        fails.append(("layout-changes-token-values", f"{label}: {v0} vs {v}"))
                except SqlglotError as e:
                    fails.append(("option-output-does-not-tokenize", f"{label}: {e}"))
    if res is not None and not fails:
        res.sample({"sql": case["sql"], "opts": case["opts"][:2], "dialects": case["dialects"]}, cls=case["kind"])
    return fails


def plan(tier):
    return [{"n": 60, "depth": 3, "opts": 4}] * 16 if tier == "quick" else [{"n": 300, "depth": 3, "opts": 8}] * 32 + [{"n": 100, "depth": 5, "opts": 8}] * 16


def run_shard(spec, seed, res, only_bucket=None):
    return core.drive(cases(spec["depth"], spec["opts"]), check_case, seed, spec["n"], res, only_bucket)


def replay(case):
    return check_case(case, None)


MIN_CLASSES = {"quick": {"opt:pretty": 2000, "multi-line": 1500, "opt:identify": 500, "opt:comments": 500, "has-comment": 1000}}
