"""C02 — transpilation SQLite<->DuckDB (and both identity directions) preserves query results on the real engines."""
from __future__ import annotations

import logging

from hypothesis import strategies as st

from vp import core
from vp.gen import queries
from vp.oracle import engines

ID = "C02"
LEVEL = "exploration"
RULE = (
    "Hypothesis builds typed queries of the common fragment (INT/TEXT/TIMESTAMP columns; + - *, comparisons, IS NULL, BETWEEN, IN, AND/OR/NOT, CASE, COALESCE, ABS, LENGTH, "
    "UPPER/LOWER, parenthesised ||, CAST(int AS TEXT), strftime with directives both engines define identically; aggregates, GROUP BY/HAVING, DISTINCT, UNION [ALL]/INTERSECT/"
    "EXCEPT, IN/EXISTS/scalar subqueries, CTEs, derived tables, all join kinds; total ORDER BY with and without explicit NULLS FIRST|LAST, ASC/DESC, LIMIT/OFFSET) plus "
    "DuckDB-side QUALIFY, DISTINCT ON and SEMI/ANTI joins, and small NULL-bearing databases. Oracle: the query runs on its source engine, transpile(q, read=src, write=dst)[0] "
    "runs on the target engine on identical data; rows must agree (multiset; sequence under total ORDER BY). Pairs: sqlite->duckdb, duckdb->sqlite, sqlite->sqlite, "
    "duckdb->duckdb. Non-trivial = result non-empty and one of {NULL in an ordered column without explicit NULLS, outer join, LIMIT, ||, strftime, QUALIFY/DISTINCT ON/SEMI/ANTI}; "
    "distinct = distinct (query, database, pair)."
)
ASSUMPTIONS = [
    "sqlite3 3.40 and duckdb 1.x in-process are the reference engines; a query its SOURCE engine rejects is a generator error (counted, exit 2 above 2%)",
    "the fragment excludes semantics the engines genuinely disagree on (LIKE case, implicit text<->number coercion, integer division, two-argument MAX/MIN)",
]

SCHEMA2 = dict(queries.SCHEMA, w=[("k", "int"), ("ts", "ts")])
TS_VALUES = (None, "2020-01-02 03:04:05", "2021-12-31 23:59:59", "1999-07-04 00:00:00", "2020-01-02 03:04:05")
FMT = ("%Y", "%m", "%d", "%H", "%M", "%S", "%j", "%Y-%m-%d", "%H:%M", "%Y/%m", "%d.%m.%Y %H:%M:%S")
PAIRS = (("sqlite", "duckdb"), ("duckdb", "sqlite"), ("sqlite", "sqlite"), ("duckdb", "duckdb"))


@st.composite
def cases(draw, depth):
    k = draw(st.integers(0, 10))
    tables = draw(queries.tables())
    tables["w"] = [[draw(st.integers(0, 3)), draw(st.sampled_from(TS_VALUES))] for _ in range(draw(st.integers(0, 4)))]
    if k < 6:
        c = draw(queries.case("common", depth))
        c["tables"] = tables
        c["dialect_only"] = None
        return c
    q = queries.Q(draw, "common", depth)
    feats = set()
    only = None
    if k == 10:
        # REAL division (both engines agree on it, integer division they do not): SQLite yields NULL for a zero divisor, so the
        # SQLite -> DuckDB text has to guard EVERY division of a multiplicative chain, wherever it sits in the chain
        t1 = draw(st.sampled_from(("t", "u", "v")))
        c = [f"x1.{n}" for n, ty in queries.SCHEMA[t1] if ty == "int"]
        a, b = c[0], c[-1]
        chain = draw(st.sampled_from(("CAST({a} AS DOUBLE) / {b} * 2", "CAST({a} AS DOUBLE) / {b} / 2", "2 * CAST({a} AS DOUBLE) / {b}", "CAST({a} AS DOUBLE) / {b} * {a} / 3", "(CAST({a} AS DOUBLE) / {b}) + 1", "CAST({a} AS DOUBLE) / ({b} - 1) * 4"))).format(a=a, b=b)
        feats |= {"real-division", "div:chain"}
        where = draw(st.sampled_from(("", f" WHERE ({chain}) IS NULL", f" WHERE {b} = 0 OR {a} > 0")))
        sql = f"SELECT {a} AS o0, {chain} AS o1 FROM {t1} AS x1{where}"
        if not any(r[[n for n, _ in queries.SCHEMA[t1]].index(b.split(".")[1])] == 0 for r in tables[t1]):
            tables[t1] = tables[t1] + [[(0 if ty == "int" else "a") for _, ty in queries.SCHEMA[t1]], [(1 if ty == "int" else "b") for _, ty in queries.SCHEMA[t1]]]
        return {"sql": sql, "tables": tables, "features": sorted(feats), "ordered": False, "ncols": 2, "types": ["int", "float"], "dialect_only": "sqlite"}
    if k == 6:
        # strftime over the timestamp table; SQLite spelling is the source text when src=sqlite, DuckDB spelling otherwise
        fmt = draw(st.sampled_from(FMT))
        feats.add("strftime")
        nulls = draw(st.sampled_from(("", " NULLS FIRST", " NULLS LAST")))
        sql = {
            "sqlite": f"SELECT STRFTIME('{fmt}', x1.ts) AS o0, x1.k AS o1 FROM w AS x1 ORDER BY o0{nulls}, o1{nulls}",
            "duckdb": f"SELECT STRFTIME(x1.ts, '{fmt}') AS o0, x1.k AS o1 FROM w AS x1 ORDER BY o0{nulls}, o1{nulls}",
        }
        return {"sql": sql, "tables": tables, "features": sorted(feats), "ordered": True, "ncols": 2, "types": ["text", "int"], "dialect_only": None}
    only = "duckdb"
    t1, t2 = draw(st.sampled_from(("t", "u", "v"))), draw(st.sampled_from(("t", "u", "v")))
    s1, s2 = [("x1", queries.SCHEMA[t1])], [("x2", queries.SCHEMA[t2])]
    c1, c2 = q.col(s1, "int"), q.col(s2, "int")
    allc = ", ".join(f"x1.{c}" for c, _ in queries.SCHEMA[t1])
    if k == 7:
        kind = draw(st.sampled_from(("SEMI", "ANTI")))
        feats.add("join:" + kind.lower())
        sql = f"SELECT {c1} AS o0, {q.text_expr(s1, 1)} AS o1 FROM {t1} AS x1 {kind} JOIN {t2} AS x2 ON {c1} = {c2}"
        if draw(st.booleans()):
            sql += f" WHERE {q.bool_expr(s1, 1, False)}"
        return {"sql": sql, "tables": tables, "features": sorted(feats | q.f), "ordered": False, "ncols": 2, "types": ["int", "text"], "dialect_only": only}
    if k == 8:
        feats.add("qualify")
        part = q.col(s1, draw(st.sampled_from(("int", "text"))))
        atoms = (f"RANK() OVER (PARTITION BY {part} ORDER BY {c1}) = 1", f"COUNT(*) OVER (PARTITION BY {part}) > 1", f"DENSE_RANK() OVER (ORDER BY {c1} DESC NULLS LAST) <= 2", f"COUNT({c1}) OVER (PARTITION BY {part}) = 2", f"SUM({c1}) OVER (PARTITION BY {part}) > {c1}", f"{c1} > 0")
        # 1-3 conditions: the rewrite for engines without QUALIFY hoists EVERY window call into its own inner column
        conds = [draw(st.sampled_from(atoms)) for _ in range(draw(st.sampled_from((1, 2, 2, 3))))]
        cond = conds[0]
        for c in conds[1:]:
            cond += f" {draw(st.sampled_from(('AND', 'OR')))} {c}"
        if len(conds) > 1:
            feats.add("qualify:multi-window")
        where = f" WHERE {q.bool_expr(s1, 1, False)}" if draw(st.booleans()) else ""
        proj2 = draw(st.sampled_from((q.int_expr(s1, 1), f"ROW_NUMBER() OVER (PARTITION BY {part} ORDER BY {allc})", f"{c1} + 1")))
        sql = f"SELECT {c1} AS o0, {proj2} AS o1 FROM {t1} AS x1{where} QUALIFY {cond}"
        return {"sql": sql, "tables": tables, "features": sorted(feats | q.f), "ordered": False, "ncols": 2, "types": ["int", "int"], "dialect_only": only}
    feats.add("distinct-on")
    key = q.col(s1, draw(st.sampled_from(("int", "text"))))
    nulls = draw(st.sampled_from(("", " NULLS FIRST", " NULLS LAST")))
    desc = draw(st.sampled_from(("", " DESC")))
    cols = [f"x1.{c}" for c, _ in queries.SCHEMA[t1]]
    order = ", ".join([f"{key}{desc}{nulls}"] + [f"{c}{nulls}" for c in cols if c != key])
    sql = f"SELECT DISTINCT ON ({key}) {', '.join(f'{c} AS o{i}' for i, c in enumerate(cols))} FROM {t1} AS x1 ORDER BY {order}"
    return {"sql": sql, "tables": tables, "features": sorted(feats), "ordered": True, "ncols": 3, "types": ["int", "int", "text"], "dialect_only": only}


def _run(engine, sql, tables):
    return (engines.run_duck if engine == "duckdb" else engines.run_sqlite)(sql, tables, SCHEMA2)


def check_case(case, res=None):
    import sqlglot
    from sqlglot.errors import SqlglotError

    logging.getLogger("sqlglot").setLevel(logging.CRITICAL)
    tables, ordered, feats = case["tables"], case["ordered"], case["features"]
    fails = []
    ref = {}
    if isinstance(case["sql"], str) and not case.get("dialect_only") and not case.get("strict"):
        # precondition of the oracle: on the IDENTICAL text of the common fragment the two reference engines return the same
        # multiset of rows. Where they do not (SQLite 3.40 mishandles a constant-false ON conjunct next to RIGHT / FULL JOIN),
        # no transpilation is involved and there is nothing to judge: out of domain, counted
        try:
            a, b = _run("sqlite", case["sql"], tables), _run("duckdb", case["sql"], tables)
            if not engines.same_rows(a[1], b[1], False):
                if res is not None:
                    res.out_of_domain["engines-disagree-on-identical-text"] += 1
                return []
        except engines.EngineError:
            pass
    for src, dst in case.get("pairs") or PAIRS:
        if case.get("dialect_only") and src != case["dialect_only"]:
            continue
        sql = case["sql"][src] if isinstance(case["sql"], dict) else case["sql"]
        if not case.get("strict"):
            hit = [kf for kf, pred in EXCLUDE.items() if pred(sql, feats, src, dst)]
            if hit:
                if res is not None:
                    res.excluded[hit[0]] += 1
                continue
        if src not in ref:
            try:
                ref[src] = _run(src, sql, tables)
            except engines.EngineError as e:
                ref[src] = e
                if res is not None:
                    res.out_of_domain[f"source-engine-rejects:{src}"] += 1
                    res.extra.setdefault("rejected_samples", []).append(f"{src}: {sql} :: {e}"[:300])
        if isinstance(ref[src], Exception):
            continue
        names0, rows0 = ref[src]
        try:
            out = sqlglot.transpile(sql, read=src, write=dst, unsupported_level=sqlglot.ErrorLevel.IGNORE)[0]
        except SqlglotError as e:
            if res is not None:
                res.classes["transpile-error"] += 1
            continue
        except RecursionError:
            continue
        except Exception as e:
            fails.append((f"transpile-raises|{src}->{dst}|{type(e).__name__}", f"{sql!r}: {e}"))
            continue
        try:
            names1, rows1 = _run(dst, out, tables)
        except engines.EngineError as e:
            fails.append((f"target-rejects|{src}->{dst}|{_family(feats)}", f"{src}->{dst}: {sql!r} -> {out!r}: {e}"))
            continue
        ok = engines.same_rows(rows0, rows1, ordered)
        if not ok and ordered and "distinct-on" in feats and dst == "sqlite" and not case.get("strict") and engines.same_rows(rows0, rows1, False):
            # known finding C02-distinct-on-loses-order: same rows, the final ORDER BY is gone; everything else stays strict
            if res is not None:
                res.excluded["C02-distinct-on-loses-order"] += 1
            ok = True
        if not ok:
            fails.append((f"rows|{src}->{dst}|{_family(feats)}", f"{src}->{dst}: {sql!r} -> {out!r}; tables {tables}; source {engines.show(rows0)} target {engines.show(rows1)}"))
        if res is not None:
            special = any(f in feats or any(x.startswith(f) for x in feats) for f in ("join:left", "join:right", "join:full", "limit", "concat", "strftime", "qualify", "distinct-on", "join:semi", "join:anti", "order-by"))
            res.case(core.h8([sql, tables, src, dst]), bool(rows0 and special), [f"pair:{src}->{dst}"] + [f"feat:{f}" for f in feats] + (["nonempty-result"] if rows0 else []) + (["text-changed"] if out != sql else []))
            if ok and rows0 and out != sql:
                res.sample({"src": src, "dst": dst, "sql": sql, "out": out, "rows": rows0[:2]}, cls=f"{src}->{dst}:{_family(feats)}")
    return fails


def _family(feats):
    for key in ("strftime", "qualify", "distinct-on", "join:semi", "join:anti", "order:nulls", "order-by", "limit", "join:full", "join:right", "join:left", "setop", "sub:", "group-by", "distinct", "concat"):
        for f in feats:
            if f.startswith(key):
                return key
    return "plain"


EXCLUDE: dict = {}


def plan(tier):
    return [{"n": 150, "depth": 2}] * 16 if tier == "quick" else [{"n": 1200, "depth": 2}] * 32 + [{"n": 300, "depth": 3}] * 16


def run_shard(spec, seed, res, only_bucket=None):
    return core.drive(cases(spec["depth"]), check_case, seed, spec["n"], res, only_bucket)


def replay(case):
    return check_case(case, None)


def finalize_check(classes, ood):  # used by run.py if present
    return None


MIN_CLASSES = {"quick": {"pair:sqlite->duckdb": 800, "pair:duckdb->sqlite": 800, "feat:strftime": 100, "feat:qualify": 50, "feat:distinct-on": 50, "nonempty-result": 2000}}
