"""C03 — the optimizer never changes what a query returns (rows and output column names), per rule and per pipeline prefix."""
from __future__ import annotations

import inspect
import logging

from hypothesis import strategies as st

from vp import core
from vp.gen import queries
from vp.oracle import contradiction, engines

ID = "C03"
LEVEL = "exploration"
RULE = (
    "Hypothesis builds typed SELECT queries over a 3-table schema (inner/left/right/full/cross joins, derived tables, CTEs referenced 0-3 times, correlated and "
    "uncorrelated IN/NOT IN/EXISTS/scalar/ANY subqueries, GROUP BY/HAVING, DISTINCT, windows, set operations incl. ALL, total ORDER BY with LIMIT/OFFSET) and small "
    "databases with NULLs, duplicates and empty tables. Oracle: DuckDB executes the original text and the DuckDB text of optimize(q, schema, dialect='duckdb', rules=R) "
    "for R = the full pipeline, (qualify, r) for each single rule r, and (sampled in quick, always in thorough) every prefix RULES[:k]; rows must agree as multisets "
    "(as sequences under a total ORDER BY) and output column names must agree case-insensitively. OptimizeError is an allowed outcome. Non-trivial = optimized SQL "
    "differs from the qualified SQL and (result non-empty or an outer join / empty table / NULL-sensitive feature is present); distinct = distinct (query, database)."
)
ASSUMPTIONS = [
    "DuckDB 1.x is the reference semantics for the generated fragment; queries it rejects are generator errors, not findings",
    "float results (AVG) are compared with 1e-9 tolerance; everything else exactly",
]


def _rules():
    from sqlglot.optimizer.optimizer import RULES

    return list(RULES)


def _optimize(sql, rules):
    import sqlglot
    from sqlglot.optimizer import optimize

    tree = sqlglot.parse_one(sql, dialect="duckdb")
    out = optimize(tree, schema=queries.schema_dict(), dialect="duckdb", rules=rules)
    return out.sql(dialect="duckdb")


def check_case(case, res=None):
    from sqlglot.errors import OptimizeError, SqlglotError

    logging.getLogger("sqlglot").setLevel(logging.CRITICAL)
    sql, tables, ordered = case["sql"], case["tables"], case["ordered"]
    db = engines.Duck(tables)
    try:
        return _check(case, res, db)
    finally:
        db.close()


def _check(case, res, db):
    from sqlglot.errors import OptimizeError, SqlglotError

    sql, tables, ordered = case["sql"], case["tables"], case["ordered"]
    if "RIGHT JOIN" in sql and " ON 1 = 1" in sql and not case.get("strict"):
        # known finding C03-right-join-on-true-to-cross: excluded by construction, counted
        if res is not None:
            res.excluded["C03-right-join-on-true-to-cross"] += 1
        return []
    if "CROSS JOIN" in sql and " LIMIT 1)" in sql and not case.get("strict"):
        # known finding C03-cross-join-limit-1-eliminated
        if res is not None:
            res.excluded["C03-cross-join-limit-1-eliminated"] += 1
        return []
    if not case.get("strict") and contradiction.in_region(sql):
        # known finding C03-contradiction-to-false (root cause C06-contradiction-to-false)
        if res is not None:
            res.excluded["C03-contradiction-to-false"] += 1
        return []
    try:
        names0, rows0 = db.run(sql)
    except engines.EngineError as e:
        if res is not None:
            res.out_of_domain["duckdb-rejects-original"] += 1
            res.extra.setdefault("rejected_samples", []).append(f"{sql} :: {e}"[:300])
        return []
    RULES = _rules()
    by_name = {r.__name__: r for r in RULES}
    qualify = RULES[0]
    plans = [("full", tuple(RULES))]
    only = case.get("only_plan")
    for r in RULES[1:]:
        plans.append((f"single:{r.__name__}", (qualify, r)))
    if case.get("prefixes"):
        for k in range(1, len(RULES)):
            plans.append((f"prefix:{k}:{RULES[k - 1].__name__}", tuple(RULES[:k])))
    fails = []
    qualified_sql = None
    changed = False
    n_plans = 0
    prefix_failed = False
    for name, rules in plans:
        if only and name != only:
            continue
        if name.startswith("prefix:") and prefix_failed:
            continue  # later prefixes inherit the failure: attribute it to the first failing prefix only
        try:
            opt = _optimize(sql, rules)
        except OptimizeError:
            if res is not None:
                res.classes["optimize-error"] += 1
            continue
        except RecursionError:
            continue
        except Exception as e:
            fails.append((f"optimizer-raises|{name.split(':')[-1]}|{type(e).__name__}", f"{name} on {sql!r}: {type(e).__name__}: {e}"))
            continue
        n_plans += 1
        if name == "single:quote_identifiers" or qualified_sql is None:
            pass
        if qualified_sql is None:
            try:
                qualified_sql = _optimize(sql, (qualify,))
            except Exception:
                qualified_sql = ""
        if opt != qualified_sql:
            changed = True
        try:
            names1, rows1 = db.run(opt)
        except engines.EngineError as e:
            fails.append((f"invalid-sql|{_attr(name)}", f"{name}: DuckDB rejects optimized text {opt!r} of {sql!r}: {e}"))
            prefix_failed = prefix_failed or name.startswith("prefix:")
            continue
        if [n.lower() for n in names1] != [n.lower() for n in names0]:
            fails.append((f"column-names|{_attr(name)}", f"{name}: {names0} -> {names1}: {sql!r} -> {opt!r}"))
            prefix_failed = prefix_failed or name.startswith("prefix:")
            continue
        if not engines.same_rows(rows0, rows1, ordered):
            fails.append((f"rows|{_attr(name)}", f"{name}: {sql!r} -> {opt!r}; tables {tables}; expected {engines.show(rows0)} got {engines.show(rows1)}"))
            prefix_failed = prefix_failed or name.startswith("prefix:")
    if res is not None:
        feats = case["features"]
        sensitive = any(f.startswith(("join:left", "join:right", "join:full", "sub:", "agg:no-group", "setop")) for f in feats) or any(not r for r in tables.values())
        res.case(core.h8([sql, tables]), bool(changed and (rows0 or sensitive)), [f"feat:{f}" for f in feats] + (["nonempty-result"] if rows0 else []) + (["with-prefixes"] if case.get("prefixes") else []))
        res.extra["plans_executed"] = res.extra.get("plans_executed", 0) + n_plans
        if not fails and rows0:
            res.sample({"sql": sql, "tables": tables, "rows": rows0[:3]}, cls=(feats[0] if feats else ""))
    # attribute prefix failures to the first failing prefix only
    seen = set()
    out = []
    for b, d in fails:
        if b not in seen:
            seen.add(b)
            out.append((b, d))
    return out


def _attr(plan_name):
    parts = plan_name.split(":")
    return parts[-1] if parts[0] != "full" else "full"


@st.composite
def guard_case(draw):
    """Targeted shape: a derived table / CTE carrying one row-selecting feature under an outer predicate, join or aggregate.
    Every optimizer guard (LIMIT, DISTINCT, GROUP BY, window, outer-join side, multi-reference CTE) sits on exactly this shape."""
    q = queries.Q(draw, "optimizer", 1)
    tname = draw(st.sampled_from(list(queries.SCHEMA)))
    inner_scope = [("x2", queries.SCHEMA[tname])]
    ic = [f"x2.{c}" for c, _ in queries.SCHEMA[tname]]
    types = [t for _, t in queries.SCHEMA[tname]]
    feature = draw(st.sampled_from(("limit", "limit", "distinct", "group", "window", "none", "const", "boolproj")))
    where_in = f" WHERE {q.bool_expr(inner_scope, 1, False)}" if draw(st.booleans()) else ""
    cols = [("o0", "int"), ("o1", "int"), ("o2", "text")]
    if feature == "limit":
        inner = f"SELECT {ic[0]} AS o0, {ic[1]} AS o1, {ic[2]} AS o2 FROM {tname} AS x2{where_in} ORDER BY o0{draw(st.sampled_from(('', ' DESC')))}, o1, o2 LIMIT {draw(st.integers(1, 2))}" + (f" OFFSET 1" if draw(st.integers(0, 3)) == 0 else "")
    elif feature == "distinct":
        inner = f"SELECT DISTINCT {ic[0]} AS o0, {q.int_expr(inner_scope, 1)} AS o1, {ic[2]} AS o2 FROM {tname} AS x2{where_in}"
    elif feature == "group":
        inner = f"SELECT {ic[0]} AS o0, {draw(st.sampled_from(('COUNT(*)', 'SUM(' + ic[1] + ')', 'MAX(' + ic[1] + ')')))} AS o1, MIN({ic[2]}) AS o2 FROM {tname} AS x2{where_in} GROUP BY {ic[0]}"
    elif feature == "window":
        inner = f"SELECT {ic[0]} AS o0, {draw(st.sampled_from(('COUNT(*)', 'SUM(' + ic[1] + ')', 'RANK()')))} OVER (PARTITION BY {ic[0]}{' ORDER BY ' + ic[1] if draw(st.booleans()) else ''}) AS o1, {ic[2]} AS o2 FROM {tname} AS x2{where_in}"
        if "RANK() OVER (PARTITION BY " + ic[0] + ")" in inner:
            inner = inner.replace("RANK() OVER (PARTITION BY " + ic[0] + ")", "RANK() OVER (PARTITION BY " + ic[0] + " ORDER BY " + ic[1] + ")")
    elif feature == "const":
        inner = f"SELECT {ic[0]} AS o0, {draw(st.sampled_from(('1', 'COALESCE(2, ' + ic[1] + ')', ic[1] + ' IS NULL')))} AS o1, 'k' AS o2 FROM {tname} AS x2{where_in}"
        if "IS NULL" in inner:
            inner = inner.replace(ic[1] + " IS NULL AS o1", f"CASE WHEN {ic[1]} IS NULL THEN 1 ELSE 0 END AS o1")
    elif feature == "boolproj":
        # a projection that is itself a comparison / IS NULL test: inlining it into an outer comparison must keep its grouping
        inner = f"SELECT {ic[0]} AS o0, {draw(st.sampled_from((ic[0] + ' = ' + ic[1], ic[0] + ' <> ' + ic[1], ic[1] + ' IS NULL', ic[0] + ' < ' + ic[1], 'NOT ' + ic[0] + ' = 1')))} AS o1, {ic[2]} AS o2 FROM {tname} AS x2{where_in}"
    else:
        inner = f"SELECT {ic[0]} AS o0, {q.int_expr(inner_scope, 1)} AS o1, {ic[2]} AS o2 FROM {tname} AS x2{where_in}"
    as_cte = draw(st.integers(0, 2)) == 0
    refs = draw(st.integers(1, 2)) if as_cte else 1
    src = "c1 AS x1" if as_cte else f"({inner}) AS x1"
    scope = [("x1", cols)]
    t2 = draw(st.sampled_from(list(queries.SCHEMA)))
    outer_kind = draw(st.sampled_from(("where", "where", "join", "join", "join-where", "agg", "from-right")))
    feats = {f"guard:{feature}", f"guard-outer:{outer_kind}"} | ({"cte", "cte-ref"} if as_cte else {"derived"})
    s3 = [("x3", queries.SCHEMA[t2])]
    j3 = q.col(s3, "int")
    side = draw(st.sampled_from(("JOIN", "LEFT JOIN", "RIGHT JOIN", "FULL JOIN")))
    if feature == "boolproj":
        pred = draw(st.sampled_from(("x1.o1", "NOT x1.o1", "x1.o1 = TRUE", "FALSE = x1.o1", "x1.o1 IS NULL", "x1.o1 <> (x1.o0 > 0)", "x1.o1 = x1.o1", "x1.o1 IS NOT TRUE")))
    else:
      pred = draw(st.sampled_from((f"x1.o0 {draw(st.sampled_from(('>', '>=', '=', '<>', '<')))} {draw(st.integers(0, 2))}", f"x1.o1 {draw(st.sampled_from(('>', '=', '<')))} {draw(st.integers(0, 2))}", "x1.o1 IS NULL", "x1.o2 = 'a'", "x1.o0 IS NOT NULL")))
    if outer_kind == "where":
        sql = f"SELECT x1.o0 AS o0, x1.o1 AS o1 FROM {src} WHERE {pred}"
    elif outer_kind == "join":
        sql = f"SELECT x3.{queries.SCHEMA[t2][0][0]} AS o0, x1.o1 AS o1 FROM {t2} AS x3 {side} {src} ON {j3} = x1.o0"
    elif outer_kind == "join-where":
        sql = f"SELECT x3.{queries.SCHEMA[t2][0][0]} AS o0, x1.o1 AS o1 FROM {t2} AS x3 {side} {src} ON {j3} = x1.o0 WHERE {pred}"
    elif outer_kind == "from-right":
        sql = f"SELECT x3.{queries.SCHEMA[t2][0][0]} AS o0, x1.o1 AS o1 FROM {src} {side} {t2} AS x3 ON {j3} = x1.o0 WHERE {draw(st.sampled_from((pred, q.bool_expr(s3, 0, False))))}"
    else:
        sql = f"SELECT COUNT(*) AS o0, COUNT(DISTINCT x1.o1) AS o1 FROM {src} WHERE {pred}"
    if refs == 2:
        sql = f"SELECT y.o0 AS o0, y.o1 AS o1 FROM ({sql}) AS y CROSS JOIN c1 AS z WHERE z.o0 {draw(st.sampled_from(('=', '<')))} 1"
        feats.add("cte:multi-ref")
    if as_cte:
        sql = f"WITH c1 AS ({inner}) {sql}"
    feats |= q.f
    return {"sql": sql, "tables": draw(queries.tables()), "features": sorted(feats), "ordered": False, "ncols": 2, "types": ["int", "int"]}


@st.composite
def subq_case(draw):
    """Targeted shape: one table filtered by a subquery predicate whose subquery is grouped / distinct / aggregated / correlated.
    unnest_subqueries turns these into joins, and a join multiplies outer rows unless the subquery yields each value once:
    every guard of that rule (grouped by more than it projects, DISTINCT, aggregate without key, NOT IN, correlation) sits here."""
    q = queries.Q(draw, "optimizer", 1)
    t1 = draw(st.sampled_from(list(queries.SCHEMA)))
    t2 = draw(st.sampled_from(list(queries.SCHEMA)))
    scope = [("x1", queries.SCHEMA[t1])]
    inner = [("x2", queries.SCHEMA[t2])]
    oc = q.col(scope, "int")
    ic = q.col(inner, "int")
    others = [f"x2.{c}" for c, _ in queries.SCHEMA[t2] if f"x2.{c}" != ic]
    shape = draw(st.sampled_from(("group-more", "group-more", "group-same", "group-other-agg", "distinct", "plain", "corr", "corr-agg", "exists", "scalar-corr-count")))
    where_in = f" WHERE {q.bool_expr(inner, 0, False)}" if draw(st.integers(0, 2)) == 0 else ""
    corr = f"x2.{queries.SCHEMA[t2][1][0]} {draw(st.sampled_from(('=', '=', '<', '<>')))} {q.col(scope, 'int')}"
    neg = "NOT " if draw(st.integers(0, 3)) == 0 else ""
    op = draw(st.sampled_from(("IN", "IN", "= ANY", "> ANY", "< ANY")))
    if op != "IN":
        neg = ""
    if shape == "group-more":
        sub = f"SELECT {ic} FROM {t2} AS x2{where_in} GROUP BY {ic}, {draw(st.sampled_from(others))}"
    elif shape == "group-same":
        sub = f"SELECT {ic} FROM {t2} AS x2{where_in} GROUP BY {ic}"
    elif shape == "group-other-agg":
        sub = f"SELECT {draw(st.sampled_from(('MAX', 'MIN', 'COUNT', 'SUM')))}({ic}) FROM {t2} AS x2{where_in} GROUP BY {draw(st.sampled_from(others))}"
    elif shape == "distinct":
        sub = f"SELECT DISTINCT {ic} FROM {t2} AS x2{where_in}"
    elif shape == "plain":
        sub = f"SELECT {ic} FROM {t2} AS x2{where_in}"
    elif shape == "corr":
        sub = f"SELECT {ic} FROM {t2} AS x2 WHERE {corr}"
    elif shape == "corr-agg":
        sub = f"SELECT {draw(st.sampled_from(('MAX', 'MIN', 'COUNT', 'SUM')))}({ic}) FROM {t2} AS x2 WHERE {corr}"
    if shape == "exists":
        pred = f"{neg}EXISTS (SELECT 1 FROM {t2} AS x2 WHERE {corr}{' AND ' + q.bool_expr(inner, 0, False) if draw(st.booleans()) else ''})"
    elif shape == "scalar-corr-count":
        pred = f"{oc} {draw(st.sampled_from(('=', '<', '>=', '<>')))} (SELECT {draw(st.sampled_from(('COUNT(*)', 'COUNT(' + ic + ')', 'MAX(' + ic + ')', 'SUM(' + ic + ')')))} FROM {t2} AS x2 WHERE {corr})"
    elif shape == "corr-agg":
        pred = f"{oc} {draw(st.sampled_from(('=', '<', '>')))} ({sub})"
    elif op == "IN":
        pred = f"{oc} {neg}IN ({sub})"
    else:
        pred = f"{oc} {op} ({sub})"
    c0, c1 = queries.SCHEMA[t1][0][0], queries.SCHEMA[t1][1][0]
    outer = draw(st.sampled_from(("rows", "rows", "count", "and", "or", "project", "isnull")))
    if outer == "count":
        sql = f"SELECT COUNT(*) AS o0, SUM(x1.{c1}) AS o1 FROM {t1} AS x1 WHERE {pred}"
    elif outer == "and":
        sql = f"SELECT x1.{c0} AS o0, x1.{c1} AS o1 FROM {t1} AS x1 WHERE {pred} AND {q.bool_expr(scope, 0, False)}"
    elif outer == "or":
        sql = f"SELECT x1.{c0} AS o0, x1.{c1} AS o1 FROM {t1} AS x1 WHERE {pred} OR {q.bool_expr(scope, 0, False)}"
    elif outer == "project":
        # the predicate's VALUE is observed (TRUE / FALSE / NULL), not just whether the row passes a filter
        form = draw(st.sampled_from(("CASE WHEN {p} THEN 1 WHEN NOT ({p}) THEN 0 END", "CASE WHEN ({p}) IS NULL THEN 2 WHEN {p} THEN 1 ELSE 0 END", "CAST({p} AS INT)")))
        sql = f"SELECT x1.{c0} AS o0, {form.format(p=pred)} AS o1 FROM {t1} AS x1"
    elif outer == "isnull":
        sql = f"SELECT x1.{c0} AS o0, x1.{c1} AS o1 FROM {t1} AS x1 WHERE ({pred}) IS {draw(st.sampled_from(('NULL', 'NOT NULL', 'NOT TRUE')))}"
    else:
        sql = f"SELECT x1.{c0} AS o0, x1.{c1} AS o1 FROM {t1} AS x1 WHERE {pred}"
    feats = {f"subq:{shape}", f"subq-outer:{outer}", "subquery"} | ({"subq:negated"} if neg else set()) | q.f
    # rows that make multiplicity visible: an outer row whose compared value occurs in two inner rows with different companions
    tabs = draw(queries.tables())
    if draw(st.integers(0, 3)) > 0:
        oi = [c for c, _ in queries.SCHEMA[t1]].index(oc.split(".")[1])
        ii = [c for c, _ in queries.SCHEMA[t2]].index(ic.split(".")[1])
        v = draw(st.sampled_from((0, 1, 2, 3)))
        if t1 == t2:
            ii = oi
        orow = [draw(st.sampled_from(queries.INT_VALUES if ty == "int" else queries.TEXT_VALUES)) for _, ty in queries.SCHEMA[t1]]
        orow[oi] = v
        tabs[t1] = tabs[t1] + [orow]
        for k in range(2):
            r = [(k + 1 if ty == "int" else "ab"[k]) for _, ty in queries.SCHEMA[t2]]
            r[ii] = v
            tabs[t2] = tabs[t2] + [r]
        feats.add("subq:inner-repeats-key")
        if draw(st.booleans()):
            # ... and NULLs on both sides: an unknown membership test is where a join-based rewrite and the original part ways
            onull = list(orow)
            onull[oi] = None
            tabs[t1] = tabs[t1] + [onull]
            inull = [(7 if ty == "int" else "z") for _, ty in queries.SCHEMA[t2]]
            inull[ii] = None
            if t1 != t2:
                tabs[t2] = tabs[t2] + [inull]
            feats.add("subq:nulls-both-sides")
    return {"sql": sql, "tables": tabs, "features": sorted(feats), "ordered": False, "ncols": 2, "types": ["int", "int"]}


@st.composite
def cases(draw, depth, prefix_rate):
    k = draw(st.integers(0, 9))
    if k < 3:
        c = draw(guard_case())
        c["prefixes"] = draw(st.integers(0, prefix_rate - 1)) == 0
        return c
    if k < 5:
        c = draw(subq_case())
        c["prefixes"] = draw(st.integers(0, prefix_rate - 1)) == 0
        return c
    c = draw(queries.case("optimizer", depth))
    c["prefixes"] = draw(st.integers(0, prefix_rate - 1)) == 0
    return c


def plan(tier):
    return [{"n": 140, "depth": 2, "pr": 4}] * 16 if tier == "quick" else [{"n": 250, "depth": 2, "pr": 1}] * 32 + [{"n": 80, "depth": 3, "pr": 1}] * 16


def run_shard(spec, seed, res, only_bucket=None):
    return core.drive(cases(spec["depth"], spec["pr"]), check_case, seed, spec["n"], res, only_bucket)


def replay(case):
    return check_case(case, None)


def minimize(case, bucket):
    """Drop rows while the same bucket still fails."""
    import copy

    def fails_with(tables):
        c = dict(case, tables=tables)
        return any(b == bucket for b, _ in check_case(c, None))

    tables = copy.deepcopy(case["tables"])
    for name in list(tables):
        rows = tables[name]
        i = 0
        while i < len(rows):
            cand = {**tables, name: rows[:i] + rows[i + 1 :]}
            if fails_with(cand):
                tables = cand
                rows = tables[name]
            else:
                i += 1
    return dict(case, tables=tables)
