"""C09 — non-mutating APIs leave their argument untouched; copies are independent."""
from __future__ import annotations

import logging

from hypothesis import strategies as st

from vp import core
from vp.gen import edits, sqlcore
from vp.oracle import fingerprint as F

ID = "C09"
LEVEL = "exploration"
RULE = (
    "Hypothesis builds a core-grammar statement, parses it in a drawn dialect, and applies a generated sequence (3-8 calls, any order) of APIs documented "
    "to copy to the SAME argument tree: sql() into drawn target dialects with drawn options, transform(copy=True), builder methods with copy=True, optimize, "
    "qualify/annotate_types on a copy, exp.expand, replace_tables, replace_placeholders, diff (as source and as target), lineage, dump, copy, hash/==. After every "
    "call an independent deep fingerprint (class, args, public type, comments, meta), the base-dialect SQL text and the parent/arg_key/index link invariant of "
    "the argument must be what they were before. Then copy independence: c=t.copy() is equal and shares no node; generated in-place edits on either side leave "
    "the other side's fingerprint unchanged. Non-trivial = the call returned something that differs from its argument; distinct = distinct (statement, dialect, call)."
)
ASSUMPTIONS = [
    "a call that raises a library error is still required to leave its argument untouched",
    "reading .meta/.type/.comments is side-effect free for the purposes of the fingerprint",
]

CALLS = (
    "sql", "sql", "sql", "sql_pretty", "sql_identify", "transform", "select", "where", "join", "group_by", "order_by", "limit", "with_", "from_",
    "optimize", "optimize", "qualify_copy", "annotate_copy", "expand", "replace_tables", "replace_placeholders", "diff_src", "diff_tgt", "lineage",
    "dump", "copy", "hash_eq", "and_not", "normalize_copy", "simplify_copy", "subquery", "union", "donate", "donate", "donate",
)
SCHEMA = {t: {c: ty for c, ty in zip(sqlcore.COLS, ("INT", "INT", "DOUBLE", "VARCHAR", "BIGINT", "VARCHAR", "TIMESTAMP"))} for t in sqlcore.TABLES}


@st.composite
def cases(draw, depth):
    stmt = draw(sqlcore.statement(depth, only="select" if draw(st.integers(0, 3)) else None))
    names = sqlcore.dialect_names()
    if draw(st.booleans()):
        # comments live in per-node lists that generators move around (cte_sql, binary, set operations): a copy sharing such a
        # list with its original is only visible when the tree has comments
        # (any gap outside quotes will do: this property does not care where a comment ends up, and text that no longer parses is skipped)
        sql = stmt["sql"]
        gaps, q = [], None
        for i, ch in enumerate(sql):
            if q:
                q = None if ch == q else q
            elif ch in "'\"`":
                q = ch
            elif ch == " ":
                gaps.append(i)
        after_paren = [i for i in gaps if sql[i - 1 : i] == ")"]
        for _ in range(draw(st.integers(1, 3))):
            pool = after_paren if after_paren and draw(st.booleans()) else gaps
            if pool:
                i = pool[draw(st.integers(0, 200)) % len(pool)]
                sql = sql[:i] + f" /* {draw(st.sampled_from(('c1', 'note: x', 'd')))} */" + sql[i:]
                gaps = [g + (0 if g < i else 0) for g in gaps if g < i]
                after_paren = [g for g in after_paren if g < i]
        stmt = dict(stmt, sql=sql)
    n = draw(st.integers(3, 8))
    calls = []
    for _ in range(n):
        calls.append({"call": draw(st.sampled_from(CALLS)), "dialect": draw(st.sampled_from(names)), "k": draw(st.integers(0, 50))})
    return {
        "sql": stmt["sql"],
        "features": stmt["features"],
        "kind": stmt["kind"],
        "read": draw(st.sampled_from(["", "", "duckdb", "postgres", "mysql", "bigquery", "snowflake", "tsql", "spark", "hive", "oracle", "sqlite", "clickhouse", "presto", "trino"])),
        "calls": calls,
        "sql_all_at": draw(st.integers(0, 8)),
        "edits_copy": [draw(edits.edit()) for _ in range(draw(st.integers(1, 3)))],
        "edits_orig": [draw(edits.edit()) for _ in range(draw(st.integers(1, 3)))],
    }


_AUX_MUTATIONS: list = []


def _do_call(t, c):
    """Returns the call's result (or None). Must not be given anything but `t` itself as the argument under test."""
    import sqlglot
    from sqlglot import exp

    name, d, k = c["call"], c["dialect"] or None, c["k"]
    if name == "sql":
        return t.sql(dialect=d, unsupported_level=sqlglot.ErrorLevel.IGNORE)
    if name == "sql_pretty":
        return t.sql(dialect=d, pretty=True, unsupported_level=sqlglot.ErrorLevel.IGNORE, leading_comma=bool(k % 2), max_text_width=(1, 20, 80)[k % 3])
    if name == "sql_identify":
        return t.sql(dialect=d, identify=(True, "safe")[k % 2], normalize_functions=("upper", "lower", False)[k % 3], unsupported_level=sqlglot.ErrorLevel.IGNORE, comments=bool(k % 2))
    if name == "transform":
        target = exp.Column if k % 2 else exp.Literal
        return t.transform(lambda n: exp.column("renamed") if isinstance(n, target) else n)
    if name in ("select", "where", "join", "group_by", "order_by", "limit", "with_", "from_"):
        if not isinstance(t, exp.Select):
            return None
        if name == "select":
            return t.select("zz", append=bool(k % 2))
        if name == "where":
            return t.where("zz > 1", append=bool(k % 2))
        if name == "join":
            return t.join("jt", on="jt.id = 1", join_type=("left", "inner", None)[k % 3])
        if name == "group_by":
            return t.group_by("zz")
        if name == "order_by":
            return t.order_by("zz")
        if name == "limit":
            return t.limit(3)
        if name == "with_":
            return t.with_("cz", as_="SELECT 1 AS one")
        return t.from_("ft")
    if name == "donate":
        # a NODE OF t is handed to a builder that documents copying its expression arguments (condition builders, alias_, subquery,
        # with_/union): t must not lose or change that node. select/from_/join/group_by/order_by document "an Expr instance is used
        # as-is", so handing them a node that lives in another tree is the caller's responsibility and not part of this check
        host = sqlglot.parse_one("SELECT 1 AS one FROM host AS h")
        pool = {
            "join": [n for n in t.find_all(exp.Join)],
            "table": [n for n in t.find_all(exp.Table)],
            "cond": [n for n in t.find_all(exp.Condition) if not isinstance(n, (exp.Query, exp.Subquery, exp.Star))],
            "query": [n for n in t.find_all(exp.Select) if n is not t],
        }
        kinds = [kk for kk, v in pool.items() if v]
        if not kinds:
            return None
        kind = kinds[k % len(kinds)]
        node = pool[kind][(k // 4) % len(pool[kind])]
        if kind in ("join", "table"):
            return exp.alias_(node, "al") if kind == "table" else None
        if kind == "cond":
            return (host.where(node), exp.and_(node, "zz > 1"), exp.alias_(node, "al"), exp.not_(node), host.having(node), exp.or_("zz < 1", node))[k % 6]
        return (host.with_("cq", as_=node), host.union(node), exp.subquery(node, "sq"))[k % 3]
    if name == "subquery":
        return t.subquery("sq") if isinstance(t, exp.Query) else None
    if name == "union":
        return t.union("SELECT 1") if isinstance(t, exp.Query) else None
    if name == "optimize":
        from sqlglot.optimizer import optimize

        return optimize(t, schema=SCHEMA if k % 2 else None, dialect=d)
    if name == "qualify_copy":
        from sqlglot.optimizer.qualify import qualify

        return qualify(t.copy(), schema=SCHEMA, dialect=d, validate_qualify_columns=False)
    if name == "annotate_copy":
        from sqlglot.optimizer.annotate_types import annotate_types

        return annotate_types(t.copy(), schema=SCHEMA, dialect=d)
    if name == "normalize_copy":
        from sqlglot.optimizer.normalize_identifiers import normalize_identifiers

        return normalize_identifiers(t.copy(), dialect=d)
    if name == "simplify_copy":
        from sqlglot.optimizer.simplify import simplify

        return simplify(t.copy(), dialect=d)
    if name == "expand":
        return exp.expand(t, {"t": sqlglot.parse_one("SELECT a, b FROM u"), "cte1": sqlglot.parse_one("SELECT 1 AS a")})
    if name == "replace_tables":
        return exp.replace_tables(t, {"t": "zz.t", "u": "u2", "orders": "o"})
    if name == "replace_placeholders":
        if k % 2:
            # values may be NODES: they are arguments too (and one node must not end up under two parents of the result)
            v1, v2 = exp.to_identifier("pv"), exp.column("pc", table="pt")
            fps = (F.fingerprint(v1, deep=True), F.fingerprint(v2, deep=True))
            r = exp.replace_placeholders(sqlglot.parse_one("SELECT :a, :a, ? FROM :b WHERE x = :a"), v2, a=v1, b=v1)
            if v1.parent is not None or v2.parent is not None or (F.fingerprint(v1, deep=True), F.fingerprint(v2, deep=True)) != fps:
                _AUX_MUTATIONS.append("replace_placeholders adopted or changed a node given as a value")
            le = F.link_errors(r)
            if le:
                _AUX_MUTATIONS.append(f"replace_placeholders result is inconsistent: {le[:2]}")
        return exp.replace_placeholders(t, 1, 2, a=3)
    if name in ("diff_src", "diff_tgt"):
        from sqlglot import diff

        other = sqlglot.parse_one(("SELECT a, b FROM t WHERE a > 1", "SELECT x + 1 AS y FROM u JOIN t ON u.a = t.a")[k % 2])
        return diff(t, other, delta_only=bool(k % 3)) if name == "diff_src" else diff(other, t)
    if name == "lineage":
        from sqlglot.lineage import lineage

        if not isinstance(t, exp.Query):
            return None
        names = t.named_selects
        if not names:
            return None
        if k % 3 == 0:
            # the column may be given as a NODE: it is an argument like the query and must come back untouched
            col = exp.column(names[k % len(names)].upper() if k % 2 else names[k % len(names)])
            fp0 = F.fingerprint(col, deep=True)
            try:
                return lineage(col, t, schema=SCHEMA, dialect=d)
            finally:
                if F.fingerprint(col, deep=True) != fp0 or col.parent is not None:
                    _AUX_MUTATIONS.append(f"lineage changed its column argument: {col.sql()!r} (parent set: {col.parent is not None})")
        return lineage(names[k % len(names)], t, schema=SCHEMA, dialect=d)
    if name == "dump":
        return t.dump()
    if name == "copy":
        return t.copy()
    if name == "hash_eq":
        hash(t)
        return t == t.copy()
    if name == "and_not":
        if isinstance(t, exp.Condition):
            return t.and_("zz").not_()
        return None
    raise ValueError(name)


def _state(t):
    import sqlglot

    try:
        text = t.sql(unsupported_level=sqlglot.ErrorLevel.IGNORE)
    except Exception as e:  # generation problems are C05's subject; the fingerprint still decides here
        text = f"<{type(e).__name__}>"
    return F.fingerprint(t, deep=True), text, tuple(F.link_errors(t))


def check_case(case, res=None):
    import sqlglot
    from sqlglot.errors import SqlglotError

    logging.getLogger("sqlglot").setLevel(logging.CRITICAL)
    try:
        t = sqlglot.parse_one(case["sql"], dialect=case["read"] or None)
    except SqlglotError:
        if res is not None:
            res.out_of_domain["does-not-parse-in-dialect"] += 1
        return []
    fails = []
    before = _state(t)
    calls = list(case["calls"])
    # every case also generates SQL into every registered dialect once (dialect-specific generator helpers are where
    # an accidental in-place rewrite would hide); position in the sequence is generated
    pos = case.get("sql_all_at", 0) % (len(calls) + 1)
    calls[pos:pos] = [{"call": "sql", "dialect": d, "k": 0, "bulk": True} for d in sqlcore.dialect_names()]
    for c in calls:
        result, err = None, None
        try:
            result = _do_call(t, c)
        except RecursionError:
            continue
        except Exception as e:
            err = e
        if c.get("bulk"):
            after = (F.fingerprint(t, deep=True), before[1], before[2])
        else:
            after = _state(t)
        changed_result = False
        if err is None and result is not None:
            try:
                changed_result = not (hasattr(result, "sql") and result.sql() == before[1]) if hasattr(result, "sql") else True
            except Exception:
                changed_result = True
        if res is not None:
            res.case(core.h8([case["sql"], case["read"], c]), changed_result, [f"call:{c['call']}"] + (["call-raised"] if err is not None else []))
        while _AUX_MUTATIONS:
            fails.append((f"argument-node-mutated-by:{c['call']}", f"{c} on {case['sql']!r}: {_AUX_MUTATIONS.pop()}"))
        if after != before:
            what = "fingerprint" if after[0] != before[0] else ("sql" if after[1] != before[1] else "links")
            detail = f"{c} on {case['sql']!r} (read={case['read']!r}) changed the argument's {what}"
            if what == "sql":
                detail += f": {before[1]!r} -> {after[1]!r}"
            elif what == "links":
                detail += f": {after[2][:2]}"
            else:
                from vp.props.c12 import _first_diff

                detail += ": " + _first_diff(before[0], after[0])
            fails.append((f"mutated-by:{c['call']}" + (f":{c['dialect']}" if c["call"].startswith("sql") else ""), detail))
            before = after  # keep going: report each offending call once
    # copy independence -------------------------------------------------------------------------
    c = t.copy()
    if not (c == t) or F.fingerprint(c, deep=True) != F.fingerprint(t, deep=True):
        fails.append(("copy:not-equal", case["sql"]))
    if F.node_ids(c) & F.node_ids(t):
        fails.append(("copy:shares-nodes", case["sql"]))
    fp_t = F.fingerprint(t, deep=True)
    for e in case["edits_copy"]:
        try:
            c, _ = edits.apply(c, e)
        except RecursionError:
            break
        except Exception:
            pass
        if F.fingerprint(t, deep=True) != fp_t:
            fails.append((f"copy:edit-of-copy-leaks:{e['op']}", f"{e} on copy of {case['sql']!r}"))
            fp_t = F.fingerprint(t, deep=True)
    fp_c = F.fingerprint(c, deep=True)
    for e in case["edits_orig"]:
        try:
            t, _ = edits.apply(t, e)
        except RecursionError:
            break
        except Exception:
            pass
        if F.fingerprint(c, deep=True) != fp_c:
            fails.append((f"copy:edit-of-original-leaks:{e['op']}", f"{e} on {case['sql']!r}"))
            fp_c = F.fingerprint(c, deep=True)
    if res is not None:
        res.evaluations += 1
        res.classes["copy-independence"] += 1
        if not fails:
            res.sample({"sql": case["sql"], "read": case["read"], "calls": [x["call"] for x in case["calls"]]}, cls=case["kind"])
    return fails


def plan(tier):
    return [{"n": 110, "depth": 3}] * 16 if tier == "quick" else [{"n": 2000, "depth": 3}] * 32 + [{"n": 600, "depth": 5}] * 16


def run_shard(spec, seed, res, only_bucket=None):
    return core.drive(cases(spec["depth"]), check_case, seed, spec["n"], res, only_bucket)


def replay(case):
    return check_case(case, None)


MIN_CLASSES = {"quick": {"call:optimize": 100, "call:sql": 300, "call:lineage": 30, "copy-independence": 700}}
