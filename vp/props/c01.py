"""C01 — same-dialect round trip is a fixpoint (parse∘generate), tree equality in base, time formats stable."""
from __future__ import annotations

import logging

from hypothesis import strategies as st

from vp import core
from vp.gen import sqlcore
from vp.oracle import fingerprint as F

ID = "C01"
LEVEL = "exploration"
RULE = (
    "Hypothesis builds core-grammar statements (expressions over the whole precedence ladder with and without parentheses, literals of every "
    "kind, CASE/COALESCE/CAST/TRY_CAST, time-format functions, SELECT with joins/derived tables/CTEs/set ops/windows/GROUP BY/ORDER BY/LIMIT, "
    "INSERT/UPDATE/DELETE, CREATE TABLE/VIEW, DROP, ALTER) as base-dialect text s. For each of the 34 dialects d (33 registered + base): stream A "
    "round-trips s itself when it parses in d; stream B first renders parse(s) into d's own surface syntax s_d and round-trips that. Oracle: "
    "s1=gen(parse(x,d),d) reparses in d, gen(parse(s1,d),d)==s1 byte for byte, in base additionally parse(x)==parse(s1) by == and by an independent "
    "fingerprint, and time-format arguments are identical in both parses. A (statement, dialect) case is non-trivial when it parsed in d and has >=2 "
    "grammar features beyond a bare projection; distinct = distinct (feature set, dialect, stream) triples."
)
ASSUMPTIONS = [
    "unsupported_level=IGNORE so the relation is about text, not about warnings",
    "a statement that raises ParseError/TokenError in d is outside d's domain (counted as out_of_domain)",
    "non-base dialects with catalogued (dialect, kind, construct) buckets in known_findings.json are checked for novel buckets only",
]
HYP_SHRINK = True

_DIALECTS = None


def dialects():
    global _DIALECTS
    if _DIALECTS is None:
        _DIALECTS = sqlcore.dialect_names()
    return _DIALECTS


def _gen(tree, d, **opts):
    import sqlglot

    return tree.sql(dialect=d or None, unsupported_level=sqlglot.ErrorLevel.IGNORE, **opts)


def _formats(tree):
    from sqlglot import exp

    out = []
    for n in tree.find_all(exp.TimeToStr, exp.StrToTime, exp.StrToDate, exp.StrToUnix):
        f = n.args.get("format")
        out.append((type(n).__name__, f.sql() if f is not None else None))
    return sorted(out, key=repr)


def roundtrip(text: str, d: str, opts=None):
    """Returns (status, info). status in OOD, OK, GEN-EXC, REPARSE-FAIL, NOT-FIXPOINT, TREE-NEQ, FORMAT-CHANGED."""
    import sqlglot
    from sqlglot.errors import SqlglotError

    try:
        t1 = sqlglot.parse_one(text, dialect=d or None)
    except (SqlglotError, RecursionError):
        return "OOD", None
    if t1 is None:
        return "OOD", None
    return tree_roundtrip(t1, d, opts)


def tree_roundtrip(t1, d: str, opts=None):
    import sqlglot
    from sqlglot.errors import SqlglotError

    opts = opts or {}
    try:
        s1 = _gen(t1, d, **opts)
    except SqlglotError:
        return "OOD", None
    except Exception as e:
        return "GEN-EXC", {"t1": t1, "err": f"{type(e).__name__}: {e}"}
    try:
        t2 = sqlglot.parse_one(s1, dialect=d or None)
    except SqlglotError as e:
        return "REPARSE-FAIL", {"t1": t1, "s1": s1, "err": str(e)[:200]}
    try:
        s2 = _gen(t2, d, **opts)
    except Exception as e:
        return "GEN-EXC", {"t1": t1, "s1": s1, "err": f"{type(e).__name__}: {e}"}
    if s2 != s1:
        return "NOT-FIXPOINT", {"t1": t1, "s1": s1, "s2": s2}
    if not d:
        if not (t1 == t2) or F.fingerprint(t1) != F.fingerprint(t2):
            return "TREE-NEQ", {"t1": t1, "s1": s1}
        if _formats(t1) != _formats(t2):
            return "FORMAT-CHANGED", {"t1": t1, "s1": s1, "f1": _formats(t1), "f2": _formats(t2)}
    return "OK", {"t1": t1, "s1": s1}


def _bucket(d: str, kind: str, t1, opts=None) -> tuple:
    """(bucket key, minimal failing text). Smallest sub-tree whose own round trip fails the same way, else the root."""
    from sqlglot import exp

    cands = []
    for n in t1.walk():
        if n is t1:
            continue
        if isinstance(n.parent, (exp.From, exp.Join, exp.With, exp.CTE, exp.Lateral)) or isinstance(n, (exp.Alias, exp.Subquery, exp.Table)):
            continue  # table-position nodes do not parse standalone the way they do in context
        if isinstance(n, (exp.Condition, exp.Query)) and not isinstance(n, (exp.Identifier, exp.Literal, exp.Star, exp.Null, exp.Boolean, exp.Column)):
            cands.append(n)
    sized = sorted(((F.count_nodes(n), i, n) for i, n in enumerate(cands)), key=lambda x: x[:2])
    for _, _, n in sized[:120]:
        st_, inf = tree_roundtrip(n, d, opts)
        if st_ == kind:
            return f"{d or 'base'}|{kind}|{type(n).__name__}", inf.get("s1")
    return f"{d or 'base'}|{kind}|ctx", None


def check_statement(case, res: core.Res | None = None):
    import sqlglot
    from sqlglot.errors import SqlglotError

    logging.getLogger("sqlglot").setLevel(logging.CRITICAL)
    s = case["sql"]
    feats = case.get("features", [])
    only = case.get("dialects")
    opts = case.get("opts") or {}
    fails = []
    try:
        base_tree = sqlglot.parse_one(s)
    except SqlglotError as e:
        # the generator promises base-dialect validity
        return [("harness|generator-emitted-unparseable-base-sql", f"{s!r}: {e}")]
    nontrivial_feats = len(feats) >= 2
    for d in only if only is not None else dialects():
        for stream in ("A", "B"):
            if stream == "A":
                text = s
            else:
                if not d or "own-format" in feats:
                    continue
                try:
                    text = _gen(base_tree, d)
                except Exception:
                    if res is not None:
                        res.out_of_domain["B:transpile-raises"] += 1
                    continue
                if text == s:
                    continue  # identical to stream A
            status, info = roundtrip(text, d, opts)
            if res is not None:
                if status == "OOD":
                    res.out_of_domain[f"{stream}:does-not-parse-in-dialect"] += 1
                    res.evaluations += 1
                    continue
                res.case(core.h8([feats, d, stream]), nontrivial_feats, [f"stream:{stream}", f"kind:{case.get('kind')}"] + ([f"dialect:{d or 'base'}"] if stream == "A" else []))
            elif status == "OOD":
                continue
            if status == "OK":
                if not d and stream == "A" and "timefmt" in feats:
                    # base dialect: the format strings come back unchanged
                    if _formats(base_tree) != _formats(sqlglot.parse_one(info["s1"])):
                        fails.append(("base|FORMAT-CHANGED|root", f"{s!r} -> {info['s1']!r}"))
                continue
            key, sub = _bucket(d, status, info["t1"], opts)
            if not d and key.endswith("|ctx") and "fn:if" not in feats:
                key += "-without-if"  # the base dialect's only catalogued construct is IF(); anything else stays strict
            detail = {k: (v if isinstance(v, (str, list)) else None) for k, v in info.items() if k != "t1"}
            fails.append((key, f"stream {stream} dialect {d or 'base'} input {text!r} minimal {sub!r} {detail}"))
    return fails


def _body(case, res: core.Res):
    fails = check_statement(case, res)
    for f in case.get("features", []):
        res.classes["feat:" + f] += 1
    if not fails:
        res.sample({"sql": case["sql"], "features": case["features"]}, cls=case["kind"] + ":" + (case["features"][0] if case["features"] else ""))
    return fails


def frequency_floor(bucket: str, evaluations: int = 0) -> int:
    """The base dialect is strict (one hit). In the other dialects an uncatalogued (dialect, kind, construct) cell is a violation when
    it is reached at a rate >= 1e-4 of the run's round trips (and >= 3 times): three 3.5M-case campaigns on the unchanged tree keep finding
    new cells at rates of 1e-6..1e-5 (a long tail of dialect-specific first-pass rewrites), whereas every seeded or repaired defect sat
    at >= 1e-3. Rarer cells are listed in coverage.uncatalogued_rare_buckets with their replay files."""
    if bucket.startswith(("base|", "harness|", "timefmt|")):
        return 1
    return max(3, int(evaluations * 1e-4))


TIME_FUNCS = ("TIME_TO_STR", "STR_TO_TIME", "STR_TO_DATE", "STR_TO_UNIX")
# the formats dialects treat as a DEFAULT (elided, added or special-cased) plus ordinary ones
TIME_FORMATS = ("%Y-%m-%d", "%Y-%m-%d %H:%M:%S", "%H:%M:%S", "%Y%m%d", "%Y-%m-%dT%H:%M:%S", "%Y-%m-%d %H:%M:%S.%f", "%m/%d/%Y", "%d.%m.%Y", "%Y", "%H:%M", "%b %d, %Y", "%y-%j")


def timefmt_cases():
    return [{"sql": f"SELECT {fn}(x, '{fmt}') FROM t", "features": ["timefmt", "fn:" + fn.lower()], "kind": "select"} for fn in TIME_FUNCS for fmt in TIME_FORMATS]


def timefmt_sweep(part, parts, res, only_bucket=None):
    """EXHAUSTIVE stream (no random draw): every time-format function x every listed format x every dialect x both streams.
    Default formats are where dialects special-case; the random grammar almost never spells one. Deterministic, hence strict:
    its buckets carry the prefix 'timefmt|' and need one hit; the cells the unchanged tree shows are catalogued one by one."""
    for i, case in enumerate(timefmt_cases()):
        if i % parts != part:
            continue
        for b, d in check_statement(case, res):
            b = "timefmt|" + b + "|" + case["sql"][7:-7]
            if only_bucket is None or b == only_bucket:
                res.fail(b, dict(case, timefmt=True), d)
    res.extra["timefmt_statements"] = res.extra.get("timefmt_statements", 0) + len(timefmt_cases()[part::parts])
    # the same functions (and CAST ... FORMAT) with the format spelled in the DIALECT'S OWN format language, read by that dialect
    from sqlglot.dialects.dialect import Dialect
    from sqlglot.time import format_time

    n = 0
    for j, d in enumerate(dialects()):
        if not d or j % parts != part:
            continue
        dia = Dialect.get_or_raise(d)
        for fmt in TIME_FORMATS:
            try:
                own = format_time(fmt, dia.INVERSE_TIME_MAPPING, dia.INVERSE_TIME_TRIE) or fmt
            except Exception:
                continue
            if own == fmt or "'" in own:
                continue
            for text in [f"SELECT {fn}(x, '{own}') FROM t" for fn in TIME_FUNCS] + [f"SELECT CAST(x AS DATE FORMAT '{own}') FROM t"]:
                case = {"sql": text, "features": ["timefmt", "own-format"], "kind": "select", "dialects": [d], "timefmt": True}
                n += 1
                try:
                    fails = check_statement(case, res)
                except Exception:
                    continue
                for b, det in fails:
                    if b.startswith("harness|"):
                        continue  # not base-dialect text: the dialect's own spelling need not parse in the base dialect
                    b = "timefmt|" + b + "|" + case["sql"][7:-7]
                    if only_bucket is None or b == only_bucket:
                        res.fail(b, case, det)
    res.extra["timefmt_own_format_statements"] = res.extra.get("timefmt_own_format_statements", 0) + n


def plan(tier):
    sweep = [{"kind": "timefmt", "part": i, "parts": 4} for i in range(4)]
    if tier == "quick":
        return sweep + [{"n": 90, "depth": 3}] * 16
    return sweep + [{"n": 300, "depth": 3}] * 32 + [{"n": 100, "depth": 5}] * 16


def run_shard(spec, seed, res, only_bucket=None):
    if spec.get("kind") == "timefmt":
        timefmt_sweep(spec["part"], spec["parts"], res, only_bucket)
        return None
    return core.drive(sqlcore.statement(spec["depth"]), _body, seed, spec["n"], res, only_bucket)


def replay(case):
    if case.get("timefmt"):
        return [("timefmt|" + b + "|" + case["sql"][7:-7], d) for b, d in check_statement(case, None)]
    return check_statement(case, None)


def minimize(case, bucket):
    """Restrict the replay case to the failing dialect and, when the minimal sub-expression reproduces, to that text."""
    d = bucket.split("|")[0]
    d = "" if d == "base" else d
    c = dict(case, dialects=[d])
    fails = [f for f in check_statement(c, None) if f[0] == bucket]
    if fails:
        return c
    return case
