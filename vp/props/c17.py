"""C17 — lineage leaves are exactly the base columns that flow into an output column (provenance known by construction)."""
from __future__ import annotations

import logging

from hypothesis import strategies as st

from vp import core
from vp.gen import queries

ID = "C17"
LEVEL = "exploration"
RULE = (
    "Hypothesis builds queries bottom-up from named relations (a relation = SELECT of expressions over base tables and earlier relations, with joins, WHERE, UNION [ALL] arms, "
    "scalar subqueries in projections, stars and column-list aliases; nesting <=4; a relation may be referenced several times under different aliases) and records for every "
    "projected expression the set of base (table, column) pairs it was built from. Each query is rendered in three presentations - relations as derived tables, as CTEs, and "
    "supplied through the sources= argument - and with permuted alias names. Oracle: for every output column, {(leaf table, leaf column)} over lineage(col, sql, schema, ...).walk() "
    "leaves whose expression is a Table equals the recorded set (none missing, none extra), identically for the three presentations and alias permutations, and "
    "lineage(None, ...) (shared cache) equals the per-column calls. Non-trivial = provenance passes through >=2 scopes, a set operation or a multiply-referenced relation; "
    "distinct = distinct (query, presentation, column)."
)
ASSUMPTIONS = [
    "columns referenced anywhere inside a projected expression (incl. CASE conditions and a scalar subquery's projection) flow into it; WHERE/ON/GROUP BY columns do not",
]

BASE = {t: [c for c, _ in cols] for t, cols in queries.SCHEMA.items()}
ALIAS_POOLS = (("x1", "x2", "x3", "x4", "x5", "x6", "x7", "x8"), ("k", "m", "n", "p2", "q2", "r", "s2", "w"), ("a1", "b1", "t1", "u1", "v1", "t", "u", "zz"))


@st.composite
def programs(draw, max_rel):
    """A program = list of relation definitions + a final select; all references by index so that it can be rendered many ways."""
    rels = []  # each: {"arms": [arm], "collist": bool}; arm = {"from": [(kind, ref)], "proj": [expr], "where": expr|None, "star": bool}
    n_rel = draw(st.integers(1, max_rel))

    def cols_of(src):
        kind, ref = src
        if kind == "base":
            return {c: frozenset({(ref, c)}) for c in BASE[ref]}
        return dict(rels[ref]["cols"])

    def expr(scope_cols, depth=1):
        # scope_cols: list of (src_index, colname, prov)
        k = draw(st.integers(0, 9))
        i, c, p = draw(st.sampled_from(scope_cols))
        if k >= 8 and depth > 0:
            # scalar subquery whose body is a set operation / reads a derived table: every arm's projection flows in
            t = draw(st.sampled_from(sorted(BASE)))
            sc = draw(st.sampled_from(BASE[t]))
            if k == 8:
                t2 = draw(st.sampled_from(sorted(BASE)))
                sc2 = draw(st.sampled_from(BASE[t2]))
                return ("scalar_setop", t, sc, t2, sc2, draw(st.sampled_from(("UNION ALL", "UNION", "INTERSECT", "EXCEPT")))), frozenset({(t, sc), (t2, sc2)})
            return ("scalar_derived", t, sc), frozenset({(t, sc)})
        k = min(k, 7)
        if k < 3 or depth <= 0:
            return ("col", i, c), p
        if k == 3:
            return ("lit",), frozenset()
        if k == 4:
            e2, p2 = expr(scope_cols, depth - 1)
            return ("bin", ("col", i, c), e2), p | p2
        if k == 5:
            e2, p2 = expr(scope_cols, 0)
            e3, p3 = expr(scope_cols, 0)
            return ("case", ("col", i, c), e2, e3), p | p2 | p3
        if k == 6:
            e2, p2 = expr(scope_cols, 0)
            return ("coalesce", ("col", i, c), e2), p | p2
        t = draw(st.sampled_from(sorted(BASE)))
        sc = draw(st.sampled_from(BASE[t]))
        return ("scalar", t, sc, ("col", i, c) if draw(st.booleans()) else None), frozenset({(t, sc)})

    def arm(n_out=None):
        n_src = draw(st.integers(1, 2))
        srcs = []
        for _ in range(n_src):
            if rels and draw(st.integers(0, 2)) > 0:
                srcs.append(("rel", draw(st.integers(0, len(rels) - 1))))
            else:
                srcs.append(("base", draw(st.sampled_from(sorted(BASE)))))
        scope_cols = [(i, c, p) for i, s in enumerate(srcs) for c, p in cols_of(s).items()]
        star = n_out is None and draw(st.integers(0, 5)) == 0
        if star:
            # SELECT * / SELECT x.* : output columns are the sources' columns in order (duplicates keep the first)
            which = draw(st.integers(0, len(srcs)))  # len(srcs) => bare *
            allc = [c for s_ in srcs for c in cols_of(s_)]
            if which == len(srcs) and len(allc) != len(set(allc)):
                # a derived table exposing one name twice makes later references ambiguous (invalid in standard SQL): out of domain
                which = 0
            proj, outs = [], []
            for i, s in enumerate(srcs):
                if which == len(srcs) or which == i:
                    for c, p in cols_of(s).items():
                        outs.append((c, p))
            return {"from": srcs, "proj": None, "star": which, "where": expr(scope_cols, 0)[0] if draw(st.booleans()) else None}, outs
        n = n_out or draw(st.integers(1, 3))
        proj, outs = [], []
        for j in range(n):
            e, p = expr(scope_cols)
            proj.append(e)
            outs.append((f"c{j}", p))
        return {"from": srcs, "proj": proj, "star": None, "where": expr(scope_cols, 0)[0] if draw(st.booleans()) else None}, outs

    def relation():
        a1, outs = arm()
        arms = [a1]
        names = []
        seen = set()
        for c, p in outs:
            if c not in seen:
                seen.add(c)
                names.append((c, p))
        if a1["star"] is None and draw(st.integers(0, 3)) == 0:
            a2, outs2 = arm(len(outs))
            arms.append(a2)
            names = [(c, p | p2) for (c, p), (_, p2) in zip(outs, outs2)]
            op = draw(st.sampled_from(("UNION ALL", "UNION")))
        else:
            op = None
        collist = a1["star"] is None and draw(st.integers(0, 4)) == 0
        if collist:
            names = [(f"k{j}", p) for j, (_, p) in enumerate(names)]
        return {"arms": arms, "op": op, "collist": collist, "cols": names}

    for _ in range(n_rel):
        rels.append(relation())
    final = relation()
    final["collist"] = False
    if final["arms"][0]["star"] is None:
        final["cols"] = [(f"c{j}", p) for j, (_, p) in enumerate(final["cols"])]
    return {"rels": [{k: v for k, v in r.items()} for r in rels], "final": final, "perm": draw(st.integers(0, 2))}


def _enc(prog):
    def e(r):
        return {"arms": r["arms"], "op": r["op"], "collist": r["collist"], "cols": [[c, sorted(p)] for c, p in r["cols"]]}

    return {"rels": [e(r) for r in prog["rels"]], "final": e(prog["final"]), "perm": prog["perm"]}


def render(prog, mode, perm):
    """Returns (sql, sources dict or None). mode in inline / cte / sources."""
    pool = ALIAS_POOLS[perm]
    counter = [0]

    def alias():
        counter[0] += 1
        return pool[(counter[0] - 1) % len(pool)] + (str(counter[0]) if counter[0] > len(pool) else "")

    def rel_sql(r):
        parts = []
        for a in r["arms"]:
            names = []
            frm = []
            for kind, ref in [tuple(x) for x in a["from"]]:
                al = alias()
                names.append(al)
                if kind == "base":
                    frm.append(f"{ref} AS {al}")
                elif mode == "inline":
                    rr = prog["rels"][ref]
                    cl = f"({', '.join(c for c, _ in rr['cols'])})" if rr["collist"] else ""
                    frm.append(f"({rel_sql(rr)}) AS {al}{cl}")
                elif mode == "sources" and prog["rels"][ref]["collist"] and prog.get("perm", 0) % 2 == 0:
                    # the column list sits on the REFERENCE to the source (x AS z(p, q)); the other half of the programs renames
                    # inside the source text instead (see below)
                    frm.append(f"n{ref} AS {al}({', '.join(c for c, _ in prog['rels'][ref]['cols'])})")
                else:
                    frm.append(f"n{ref} AS {al}")

            def ex(e):
                e = tuple(e) if isinstance(e, list) else e
                k = e[0]
                if k == "col":
                    return f"{names[e[1]]}.{e[2]}"
                if k == "lit":
                    return "1"
                if k == "bin":
                    return f"({ex(e[1])} + {ex(e[2])})"
                if k == "case":
                    return f"CASE WHEN {ex(e[1])} > 0 THEN {ex(e[2])} ELSE {ex(e[3])} END"
                if k == "coalesce":
                    return f"COALESCE({ex(e[1])}, {ex(e[2])})"
                if k == "scalar":
                    al = alias()
                    corr = f" WHERE {al}.{BASE[e[1]][0]} = {ex(e[3])}" if e[3] else ""
                    return f"(SELECT MAX({al}.{e[2]}) FROM {e[1]} AS {al}{corr})"
                if k == "scalar_setop":
                    a1, a2 = alias(), alias()
                    return f"(SELECT {a1}.{e[2]} FROM {e[1]} AS {a1} {e[5]} SELECT {a2}.{e[4]} FROM {e[3]} AS {a2} LIMIT 1)"
                if k == "scalar_derived":
                    a1, a2 = alias(), alias()
                    return f"(SELECT MAX({a2}.{e[2]}) FROM (SELECT {a1}.{e[2]} FROM {e[1]} AS {a1}) AS {a2})"
                raise ValueError(k)

            if a["star"] is not None:
                proj = "*" if a["star"] == len(names) else f"{names[a['star']]}.*"
            else:
                proj = ", ".join(f"{ex(e)} AS c{j}" for j, e in enumerate(a["proj"]))
            join = frm[0] + "".join(f" CROSS JOIN {f}" for f in frm[1:])
            where = f" WHERE {ex(a['where'])} IS NOT NULL" if a["where"] else ""
            parts.append(f"SELECT {proj} FROM {join}{where}")
        return f" {r['op']} ".join(parts) if r["op"] else parts[0]

    final = rel_sql(prog["final"])
    if mode == "inline":
        return final, None
    defs = []
    for i, r in enumerate(prog["rels"]):
        cl = f"({', '.join(c for c, _ in r['cols'])})" if r["collist"] else ""
        defs.append((f"n{i}", cl, rel_sql(r)))
    if mode == "cte":
        return "WITH " + ", ".join(f"{n}{cl} AS ({s})" for n, cl, s in defs) + " " + final, None
    # sources: a column list cannot be expressed there, render it as aliases inside the source
    srcs = {}
    for (n, cl, s), r in zip(defs, prog["rels"]):
        if r["collist"] and prog.get("perm", 0) % 2 == 1:
            s = f"SELECT {', '.join(f'z.c{j} AS {c}' for j, (c, _) in enumerate(r['cols']))} FROM ({s}) AS z"
        srcs[n] = s
    return final, srcs


def _leaves(node):
    from sqlglot import exp

    out = set()
    for n in node.walk():
        if n.downstream:
            continue
        if isinstance(n.expression, exp.Table):
            out.add((n.expression.name, n.name.split(".")[-1]))
        elif isinstance(n.expression, exp.Placeholder):
            out.add(("<placeholder>", n.name))
    return out


def check_case(case, res=None):
    from sqlglot.errors import SqlglotError
    from sqlglot.lineage import lineage

    logging.getLogger("sqlglot").setLevel(logging.CRITICAL)
    prog = case
    schema = queries.schema_dict()
    final_cols = [(c, {tuple(x) for x in p}) for c, p in prog["final"]["cols"]]
    # star relations can repeat a column name: only the first of a name is addressable
    seen, want = set(), []
    for c, p in final_cols:
        if c not in seen:
            seen.add(c)
            want.append((c, p))
    fails = []
    n_scopes = len(prog["rels"])
    multi = any(sum(1 for a in ([x for r in prog["rels"] + [prog["final"]] for x in r["arms"]]) for s in a["from"] if tuple(s) == ("rel", i)) >= 2 for i in range(len(prog["rels"])))
    setop = any(r["op"] for r in prog["rels"] + [prog["final"]])
    used_rel = any(tuple(s)[0] == "rel" for a in prog["final"]["arms"] for s in a["from"])
    for mode in ("inline", "cte", "sources"):
        for perm in sorted({prog.get("perm", 0), 0}):
            try:
                sql, srcs = render(prog, mode, perm)
            except RecursionError:
                continue
            kw = {"sources": srcs} if srcs else {}
            try:
                all_nodes = lineage(None, sql, schema=schema, **kw)
            except (SqlglotError, RecursionError) as e:
                if res is not None:
                    res.out_of_domain[f"lineage-raises:{type(e).__name__}"] += 1
                    res.extra.setdefault("raise_samples", []).append(f"{mode}: {sql[:300]} :: {str(e)[:150]}")
                continue
            except Exception as e:
                fails.append((f"lineage-raises|{type(e).__name__}|{mode}", f"{mode}: {sql!r}: {type(e).__name__}: {e}"))
                continue
            for c, p in want:
                try:
                    got = _leaves(lineage(c, sql, schema=schema, **kw))
                except (SqlglotError, RecursionError):
                    continue
                except Exception as e:
                    fails.append((f"lineage-raises|{type(e).__name__}|{mode}", f"{mode} column {c}: {sql!r}: {type(e).__name__}: {e}"))
                    continue
                if res is not None:
                    res.case(core.h8([sql, c]), bool((used_rel and n_scopes >= 1) or setop or multi), [f"mode:{mode}"] + (["set-operation"] if setop else []) + (["multi-ref"] if multi else []) + (["through-relation"] if used_rel else []))
                if got != p:
                    missing, extra = sorted(p - got), sorted(got - p)
                    fails.append((f"leaves|{mode}|{'missing' if missing else ''}{'extra' if extra else ''}", f"{mode} column {c} of {sql!r} (sources={srcs}): expected {sorted(p)}, got {sorted(got)}"))
                    continue
                if c in all_nodes and _leaves(all_nodes[c]) != p:
                    fails.append((f"leaves-shared-cache|{mode}", f"{mode} column {c} of {sql!r}: lineage(None) gives {sorted(_leaves(all_nodes[c]))}, expected {sorted(p)}"))
            if res is not None and not fails and mode == "cte":
                res.sample({"sql": sql, "expected": {c: sorted(p) for c, p in want}}, cls=str(n_scopes))
    return fails


def plan(tier):
    return [{"n": 130, "rels": 3}] * 16 if tier == "quick" else [{"n": 1500, "rels": 3}] * 32 + [{"n": 700, "rels": 4}] * 16


def run_shard(spec, seed, res, only_bucket=None):
    return core.drive(programs(spec["rels"]), lambda prog, r: check_case(_enc(prog) if not isinstance(prog["final"]["cols"][0][1], list) else prog, r), seed, spec["n"], res, only_bucket, encode=lambda p: _enc(p) if not isinstance(p["final"]["cols"][0][1], list) else p)


def replay(case):
    return check_case(case, None)


MIN_CLASSES = {"quick": {"mode:sources": 1000, "set-operation": 500, "multi-ref": 200, "through-relation": 1500}}
