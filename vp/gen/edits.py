"""Public tree-mutation operations expressed as JSON-able specs, shared by C08 (histories), C09 and C20.

A spec is a dict {"op": name, "node": int, ...}. `apply(tree, spec)` performs it through the public API and returns the
(possibly new) root. Node selection is `list(root.walk())[node % n]`, so any integer is a valid choice on any tree.
"""
from __future__ import annotations

from hypothesis import strategies as st

NEW_EXPRS = ("z", "42", "a + 1", "'s'", "f(x, y)", "t.c", "NULL", "x AND y", "CASE WHEN p THEN 1 ELSE 2 END", "(SELECT 1)")
OPS = (
    "replace", "pop", "set_this", "set_none", "append", "set_index", "set_index_overwrite", "set_list", "transform_copy", "transform_inplace",
    "transform_delete", "replace_children", "select", "where", "join", "group_by", "order_by", "limit", "with_", "from_", "and_", "not_",
    "replace_by_list", "set_expression", "alias", "replace_tables", "hash", "eq", "copy_root", "distinct", "having", "replace_placeholders",
)


@st.composite
def edit(draw, ops=OPS):
    return {
        "op": draw(st.sampled_from(ops)),
        "node": draw(st.integers(0, 60)),
        "new": draw(st.integers(0, len(NEW_EXPRS) - 1)),
        "idx": draw(st.integers(0, 3)),
        "flag": draw(st.booleans()),
        # append: prefer a node that has an EMPTY list argument (foo(), a list emptied earlier) -- shared-empty-list bugs hide there
        "pe": draw(st.booleans()),
    }


def _new(spec, k=0):
    import sqlglot

    return sqlglot.parse_one(NEW_EXPRS[(spec["new"] + k) % len(NEW_EXPRS)])


def _pick(root, spec):
    nodes = list(root.walk())
    if spec.get("pe") and spec["op"] == "append":
        empties = [n for n in nodes if any(type(v) is list and not v for v in n.args.values())]
        if empties:
            return empties[spec["node"] % len(empties)]
    return nodes[spec["node"] % len(nodes)]


def apply(root, spec):
    """Apply one operation; returns (root, note). Operations that the API rejects for this node raise; callers treat
    any exception from the library as "operation refused" and then still check the invariants."""
    from sqlglot import exp

    op = spec["op"]
    n = _pick(root, spec)
    note = f"{op}@{type(n).__name__}"
    if op == "replace":
        new = _new(spec)
        r = n.replace(new)
        return (r if n is root else root), note
    if op == "replace_by_list":
        if n.parent is None or n.index is None:
            return root, note + ":skip"
        if spec.get("pe"):
            # the list may contain the node itself (splice neighbours in around it)
            n.replace([_new(spec), n, _new(spec, 1)] if spec["flag"] else [n, _new(spec)])
            return root, note + ":with-self"
        n.replace([_new(spec), _new(spec, 1)])
        return root, note
    if op == "pop":
        if n is root:
            return root, note + ":skip"
        n.pop()
        return root, note
    if op == "set_this":
        if "this" not in n.arg_types:
            return root, note + ":skip"
        n.set("this", _new(spec))
        return root, note
    if op == "set_expression":
        if "expression" not in n.arg_types:
            # an argument the node class does not have is outside the domain (constructors such as TimeUnit normalise their
            # unit and would drop it, so 'rebuilt through the public constructors' is not defined for such a tree)
            return root, note + ":skip"
        n.set("expression", _new(spec))
        return root, note
    if op == "set_none":
        keys = [k for k, v in n.args.items() if v is not None]
        if not keys or n is root:
            return root, note + ":skip"
        n.set(keys[spec["idx"] % len(keys)], None)
        return root, note
    if op in ("append", "set_index", "set_index_overwrite", "set_list"):
        keys = [k for k, v in n.args.items() if type(v) is list]
        if not keys:
            return root, note + ":skip"
        k = keys[spec["idx"] % len(keys)]
        if op == "append" and spec.get("pe"):
            k = next((x for x in keys if not n.args[x]), k)
        if op == "append":
            n.append(k, _new(spec))
        elif op == "set_list":
            n.set(k, [_new(spec), _new(spec, 2)] if spec["flag"] else [])
        else:
            lst = n.args[k]
            if not lst:
                return root, note + ":skip"
            i = spec["idx"] % len(lst)
            if spec.get("pe") and spec["new"] % 3 == 0:
                i -= len(lst)  # the same position, counted from the end (negative index)
            value = None if (spec["flag"] and op == "set_index_overwrite") else _new(spec)
            n.set(k, value, index=i, overwrite=(op == "set_index_overwrite"))
        return root, note + ":" + k
    if op in ("transform_copy", "transform_inplace", "transform_delete"):
        target = exp.Literal if spec["flag"] else exp.Column

        def fn(node):
            if isinstance(node, target):
                if op == "transform_delete" and node.parent is not None and node.index is not None:
                    return None
                return _new(spec)
            return node

        out = root.transform(fn, copy=(op == "transform_copy"))
        return (out if out is not None else root), note
    if op == "replace_children":
        from sqlglot.expressions.core import replace_children

        replace_children(n, lambda c: _new(spec) if isinstance(c, exp.Literal) else c)
        return root, note
    if op == "replace_tables":
        out = exp.replace_tables(root, {"t": "zz.t", "u": "u2"}, copy=spec["flag"])
        return out, note
    if op == "replace_placeholders":
        out = exp.replace_placeholders(root, 1, x=2)
        return out, note
    if op == "hash":
        hash(n)
        return root, note
    if op == "eq":
        _ = n == _new(spec)
        _ = n in {root}
        return root, note
    if op == "copy_root":
        return root.copy(), note
    # builder methods --------------------------------------------------------------------------
    copy = spec["flag"]
    sel = n if isinstance(n, exp.Select) else (root if isinstance(root, exp.Select) else None)
    if op in ("select", "where", "join", "group_by", "order_by", "limit", "with_", "from_", "distinct", "having"):
        if sel is None:
            return root, note + ":skip"
        if op == "select":
            out = sel.select("zz", "w + 1 AS w1", copy=copy, append=spec["idx"] % 2 == 0)
        elif op == "where":
            out = sel.where("zz > 1", copy=copy, append=spec["idx"] % 2 == 0)
        elif op == "join":
            out = sel.join("jt", on="jt.id = zz", join_type=("left", "inner", "cross", "")[spec["idx"] % 4] or None, copy=copy)
        elif op == "group_by":
            out = sel.group_by("zz", copy=copy)
        elif op == "order_by":
            out = sel.order_by("zz DESC", copy=copy)
        elif op == "limit":
            out = sel.limit(7, copy=copy)
        elif op == "with_":
            out = sel.with_("cte_z", as_="SELECT 1 AS one", copy=copy)
        elif op == "from_":
            out = sel.from_("ft", copy=copy)
        elif op == "distinct":
            out = sel.distinct(copy=copy)
        else:
            out = sel.having("COUNT(*) > 1", copy=copy)
        if sel is root:
            return out, note
        if copy:
            return root, note  # result of a copying builder on an inner select is a detached tree; root untouched
        return root, note
    if op in ("and_", "not_", "alias"):
        if not isinstance(n, exp.Condition):
            return root, note + ":skip"
        if op == "and_":
            out = n.and_("zz", copy=True)
        elif op == "not_":
            out = n.not_(copy=True)
        else:
            out = exp.alias_(n, "al", copy=True)
        return root, note
    raise ValueError(op)
