"""Core-grammar SQL statements, built by construction (base-dialect text + feature set).

`statement()` is a Hypothesis strategy returning {"sql": text, "features": [...], "kind": "select"|"dml"|"ddl"}.
The grammar is stratified (boolean > predicate > arithmetic > atom) so that text is valid with or without the optional
parentheses; operators of different precedence levels are mixed without parentheses to exercise the parser's ladder.
"""
from __future__ import annotations

from hypothesis import strategies as st

TABLES = ("t", "u", "orders", "x")
COLS = ("a", "b", "c", "d", "id", "name", "ts")
ALIASES = ("s", "q", "t1", "t2", "sub")
TYPES = ("INT", "BIGINT", "SMALLINT", "DOUBLE", "FLOAT", "DECIMAL(10, 2)", "VARCHAR", "VARCHAR(10)", "TEXT", "CHAR(3)", "BOOLEAN", "DATE", "TIMESTAMP")
STRINGS = ("x", "abc", "it''s", "", "a b", "%a_", "2020-01-01", "ünï", "a\\b", "--", "/*")
FMT_PARTS = ("%Y", "%m", "%d", "%H", "%M", "%S", "%y", "%j", "%b", "%a", "%f", "%p", "%I", "%e", "%B", "%A", "%Z", "%z", "%W", "%U", "%w", "%u")
FMT_SEPS = ("-", "/", ":", ".", " ", ", ")
AGGS = ("SUM", "MIN", "MAX", "AVG", "COUNT")
FUNCS1 = ("ABS", "LOWER", "UPPER", "LENGTH", "TRIM", "FLOOR", "CEIL", "SQRT", "LN", "EXP")
WINDOW_FUNCS = ("ROW_NUMBER()", "RANK()", "DENSE_RANK()")


class G:
    def __init__(self, draw, max_depth: int):
        self.draw = draw
        self.f: set = set()
        self.max_depth = max_depth
        self.allow_subquery = True

    # primitive draws ----------------------------------------------------------------------
    def i(self, lo, hi):
        return self.draw(st.integers(lo, hi))

    def b(self, p_num=1, p_den=2):
        return self.draw(st.integers(0, p_den - 1)) < p_num

    def pick(self, seq):
        return self.draw(st.sampled_from(seq))

    # atoms ----------------------------------------------------------------------------------
    def column(self):
        c = self.pick(COLS)
        k = self.i(0, 9)
        if k < 6:
            return c
        if k < 9:
            self.f.add("col:qualified")
            return f"{self.pick(TABLES + ALIASES)}.{c}"
        self.f.add("col:quoted")
        return f'"{self.pick(("A b", "select", "Col", "x"))}"'

    def literal(self):
        k = self.i(0, 13)
        if k < 4:
            self.f.add("lit:int")
            return str(self.i(0, 1000))
        if k < 6:
            self.f.add("lit:string")
            return f"'{self.pick(STRINGS)}'"
        if k == 6:
            self.f.add("lit:decimal")
            return self.pick(("1.5", "0.25", "10.0", "3.14159", "100.001"))
        if k == 7:
            self.f.add("lit:null")
            return "NULL"
        if k == 8:
            self.f.add("lit:bool")
            return self.pick(("TRUE", "FALSE"))
        if k == 9:
            self.f.add("lit:sci")
            return self.pick(("1e3", "1.5e-2", "2E10"))
        if k == 10:
            self.f.add("lit:date")
            return self.pick(("CAST('2020-01-01' AS DATE)", "CAST('2021-12-31 23:59:59' AS TIMESTAMP)"))
        if k == 11:
            # interval literals only appear as the last +/- term of an arithmetic chain (see arith): INTERVAL followed
            # by further arithmetic is parsed as interval arithmetic, which is dialect-specific and not core grammar
            self.f.add("lit:int")
            return str(self.i(0, 30))
        if k == 12:
            self.f.add("lit:negative")
            return f"(-{self.i(1, 99)})"
        self.f.add("lit:int")
        return str(self.i(0, 9))

    def fmt(self):
        if self.b(1, 4):
            # the formats dialects treat as their DEFAULT (and therefore elide, add or special-case)
            return self.pick(("%Y-%m-%d", "%Y-%m-%d %H:%M:%S", "%H:%M:%S", "%Y%m%d", "%Y-%m-%dT%H:%M:%S", "%Y-%m-%d %H:%M:%S.%f", "%m/%d/%Y"))
        n = self.i(1, 4)
        parts = [self.pick(FMT_PARTS)]
        for _ in range(n - 1):
            parts.append(self.pick(FMT_SEPS))
            parts.append(self.pick(FMT_PARTS))
        return "".join(parts)

    def atom(self, d):
        k = self.i(0, 19)
        if d <= 0 or k < 6:
            return self.column() if self.b(3, 5) else self.literal()
        if k < 8:
            self.f.add("paren")
            return f"({self.arith(d - 1)})"
        if k == 8:
            self.f.add("fn:scalar")
            return f"{self.pick(FUNCS1)}({self.arith(d - 1)})"
        if k == 9:
            self.f.add("fn:coalesce")
            return f"COALESCE({', '.join(self.arith(d - 1) for _ in range(self.i(2, 3)))})"
        if k == 10:
            self.f.add("case:searched")
            whens = " ".join(f"WHEN {self.boolean(d - 1)} THEN {self.arith(d - 1)}" for _ in range(self.i(1, 2)))
            els = f" ELSE {self.arith(d - 1)}" if self.b() else ""
            return f"CASE {whens}{els} END"
        if k == 11:
            self.f.add("case:simple")
            whens = " ".join(f"WHEN {self.literal()} THEN {self.arith(d - 1)}" for _ in range(self.i(1, 2)))
            return f"CASE {self.column()} {whens} ELSE {self.arith(d - 1)} END"
        if k == 12:
            ty = self.pick(TYPES)
            self.f.add("cast:" + ty.split("(")[0].lower())
            fn = "CAST"
            if self.b(1, 4):
                fn = "TRY_CAST"
                self.f.add("try_cast")
            return f"{fn}({self.arith(d - 1)} AS {ty})"
        if k == 13:
            self.f.add("fn:nullif")
            return f"NULLIF({self.arith(d - 1)}, {self.arith(d - 1)})"
        if k == 14:
            self.f.add("fn:substring")
            return f"SUBSTRING({self.column()}, {self.i(1, 5)}, {self.i(1, 5)})"
        if k == 15:
            self.f.add("fn:concat")
            return f"CONCAT({self.arith(d - 1)}, {self.arith(d - 1)})"
        if k == 16 and self.allow_subquery and d >= 2:
            self.f.add("subquery:scalar")
            return f"(SELECT {self.pick(AGGS)}({self.column()}) FROM {self.pick(TABLES)}{self.where(d - 2, 2)})"
        if k == 17:
            fmt = self.fmt()
            which = self.i(0, 3)
            self.f.add("timefmt")
            if which == 0:
                self.f.add("fn:time_to_str")
                return f"TIME_TO_STR({self.column()}, '{fmt}')"
            if which == 1:
                self.f.add("fn:str_to_time")
                return f"STR_TO_TIME({self.column()}, '{fmt}')"
            if which == 2:
                self.f.add("fn:str_to_date")
                return f"STR_TO_DATE({self.column()}, '{fmt}')"
            self.f.add("fn:str_to_unix")
            return f"STR_TO_UNIX({self.column()}, '{fmt}')"
        if k == 18:
            self.f.add("fn:round")
            return f"ROUND({self.arith(d - 1)}, {self.i(0, 3)})"
        self.f.add("fn:if")
        return f"IF({self.boolean(d - 1)}, {self.arith(d - 1)}, {self.arith(d - 1)})"

    def arith(self, d):
        if d <= 0 or self.b(2, 5):
            return self.atom(d)
        n = self.i(2, 3)
        parts = [self.atom(d - 1)]
        for _ in range(n - 1):
            op = self.pick(("+", "-", "*", "/", "%", "||", "+", "*"))
            self.f.add("op:" + op)
            parts.append(op)
            parts.append(self.atom(d - 1))
        if len({p for p in parts[1::2]}) > 1:
            self.f.add("mixed-precedence")
        s = " ".join(parts)
        if self.b(1, 12) and not any(p in ("||", "%", "*", "/") for p in parts[1::2]):
            self.f.add("lit:interval")
            return f"{s} {self.pick(('+', '-'))} INTERVAL '{self.i(1, 30)}' {self.pick(('DAY', 'MONTH', 'YEAR', 'HOUR'))}"
        if self.b(1, 6):
            self.f.add("op:neg")
            return f"- ({s})" if len(parts) > 1 else f"- {s}" if not s.startswith(("-", "(-")) else s
        return s

    def predicate(self, d):
        k = self.i(0, 15)
        if k < 6:
            op = self.pick(("=", "<>", "<", "<=", ">", ">="))
            self.f.add("cmp")
            return f"{self.arith(d - 1)} {op} {self.arith(d - 1)}"
        if k == 6:
            self.f.add("is-null")
            return f"{self.atom(d - 1)} IS {'NOT ' if self.b() else ''}NULL"
        if k == 7:
            self.f.add("in-list")
            return f"{self.atom(d - 1)} {'NOT ' if self.b(1, 3) else ''}IN ({', '.join(self.literal() for _ in range(self.i(1, 3)))})"
        if k == 8:
            self.f.add("between")
            return f"{self.atom(d - 1)} {'NOT ' if self.b(1, 3) else ''}BETWEEN {self.atom(d - 1)} AND {self.atom(d - 1)}"
        if k == 9:
            self.f.add("like")
            return f"{self.column()} {'NOT ' if self.b(1, 3) else ''}LIKE '{self.pick(('a%', '%b', '_c%', '%'))}'"
        if k == 10 and self.allow_subquery and d >= 2:
            self.f.add("subquery:exists")
            return f"{'NOT ' if self.b(1, 3) else ''}EXISTS (SELECT 1 FROM {self.pick(TABLES)}{self.where(d - 2, 1)})"
        if k == 11 and self.allow_subquery and d >= 2:
            self.f.add("subquery:in")
            return f"{self.column()} {'NOT ' if self.b(1, 3) else ''}IN (SELECT {self.column()} FROM {self.pick(TABLES)}{self.where(d - 2, 2)})"
        if k == 12:
            self.f.add("bool-col")
            return self.column()
        if k == 13:
            self.f.add("is-distinct")
            return f"{self.atom(d - 1)} IS {'NOT ' if self.b() else ''}DISTINCT FROM {self.atom(d - 1)}"
        if k == 14:
            self.f.add("lit:bool")
            return self.pick(("TRUE", "FALSE"))
        if self.b(1, 3):
            # a NEGATED range predicate continued by another range operator: the parser turns x NOT IN (..) into NOT (x IN (..)),
            # which binds looser than the operator that follows, so the generator has to keep the grouping explicit
            head = self.pick((f"{self.column()} NOT IN ({self.literal()})", f"{self.column()} NOT BETWEEN 1 AND 2", f"{self.column()} NOT LIKE 'a%'"))
            tail = self.pick(("BETWEEN 2 AND 3", "LIKE 'x'", "IS NULL", "IN (TRUE)", "IS NOT NULL", "NOT IN (FALSE)", "NOT BETWEEN 0 AND 1"))
            self.f.add("range:chained-after-negation")
            return f"{head} {tail}"
        self.f.add("cmp")
        return f"{self.column()} = {self.literal()}"

    def boolean(self, d):
        if d <= 0 or self.b(2, 5):
            return self.predicate(max(d, 1))
        k = self.i(0, 5)
        if k < 4:
            n = self.i(2, 3)
            parts = [self.bool_operand(d - 1)]
            ops = set()
            for _ in range(n - 1):
                op = self.pick(("AND", "OR"))
                ops.add(op)
                parts.append(op)
                parts.append(self.bool_operand(d - 1))
            self.f.update("op:" + o.lower() for o in ops)
            if len(ops) > 1:
                self.f.add("mixed-precedence")
            return " ".join(parts)
        if k == 4:
            self.f.add("op:not")
            return f"NOT {self.bool_operand(d - 1)}"
        self.f.add("paren")
        return f"({self.boolean(d - 1)})"

    def bool_operand(self, d):
        if self.b(1, 3):
            self.f.add("paren")
            return f"({self.boolean(d)})"
        if self.b(1, 5):
            self.f.add("op:not")
            return f"NOT {self.predicate(max(d, 1))}"
        return self.predicate(max(d, 1))

    # clauses ---------------------------------------------------------------------------------
    def where(self, d, den=2):
        if self.b(1, den):
            self.f.add("where")
            return f" WHERE {self.boolean(d)}"
        return ""

    def window(self, d):
        self.f.add("window")
        fn = self.pick(WINDOW_FUNCS + tuple(f"{a}({c})" for a in AGGS[:3] for c in COLS[:2]))
        nulls = ""
        if self.b(1, 5):
            # value functions, user-defined aggregates and the IGNORE|RESPECT NULLS modifier
            self.f.add("window:value-fn")
            fn = self.pick(("FIRST_VALUE(a)", "LAST_VALUE(b)", "LAG(a)", "LEAD(b, 1)", "NTH_VALUE(a, 2)", "my_udaf(a)", "my_udaf(a, b)", "COALESCE(a, b)"))
            if self.b():
                self.f.add("window:ignore-nulls")
                nulls = self.pick((" IGNORE NULLS", " RESPECT NULLS"))
        parts = []
        if self.b():
            self.f.add("window:partition")
            parts.append(f"PARTITION BY {', '.join(self.column() for _ in range(self.i(1, 2)))}")
        if self.b(2, 3) or fn in WINDOW_FUNCS or nulls:
            parts.append(f"ORDER BY {self.order_items(d)}")
            if self.b(1, 3):
                self.f.add("window:frame")
                parts.append(self.pick(("ROWS BETWEEN UNBOUNDED PRECEDING AND CURRENT ROW", "ROWS BETWEEN 1 PRECEDING AND 1 FOLLOWING", "RANGE BETWEEN UNBOUNDED PRECEDING AND UNBOUNDED FOLLOWING")))
        if nulls and not parts:
            parts.append("ORDER BY a")
        return f"{fn}{nulls} OVER ({' '.join(parts)})"

    def order_items(self, d):
        items = []
        for _ in range(self.i(1, 2)):
            s = self.column() if self.b(2, 3) else self.arith(min(d, 1))
            k = self.i(0, 5)
            if k == 1:
                s += " DESC"
                self.f.add("order:desc")
            elif k == 2:
                s += " ASC"
            if self.b(1, 4):
                s += self.pick((" NULLS FIRST", " NULLS LAST"))
                self.f.add("order:nulls")
            items.append(s)
        return ", ".join(items)

    def projection(self, d, agg_ok):
        k = self.i(0, 11)
        if k == 0:
            self.f.add("star")
            return "*"
        if k == 1:
            self.f.add("star:qualified")
            return f"{self.pick(TABLES)}.*"
        if k == 2 and agg_ok:
            self.f.add("agg")
            a = self.pick(AGGS)
            if a == "COUNT" and self.b():
                s = "COUNT(*)"
            elif self.b(1, 4):
                self.f.add("agg:distinct")
                s = f"{a}(DISTINCT {self.column()})"
            else:
                s = f"{a}({self.arith(min(d, 1))})"
        elif k == 3:
            s = self.window(d)
        elif k == 4:
            s = self.boolean(d) if self.b() else self.arith(d)
        else:
            s = self.arith(d)
        if self.b(2, 5):
            self.f.add("alias")
            s += f" AS {self.pick(('c1', 'c2', 'total', 'val'))}" if self.b(4, 5) else f" {self.pick(('c1', 'c2'))}"
        return s

    def table_ref(self, d):
        k = self.i(0, 7)
        if k < 5 or d <= 0:
            t = self.pick(TABLES)
            if self.b(1, 5):
                self.f.add("table:qualified")
                t = f"{self.pick(('db', 'main'))}.{t}"
            if self.b(2, 5):
                self.f.add("table:alias")
                t += f" AS {self.pick(ALIASES)}"
            return t
        self.f.add("derived-table")
        return f"({self.select(d - 1, top=False)}) AS {self.pick(ALIASES)}"

    def select(self, d, top=True):
        distinct = ""
        if self.b(1, 6):
            self.f.add("distinct")
            distinct = "DISTINCT "
        group = self.b(1, 4)
        projs = ", ".join(self.projection(d, agg_ok=True) for _ in range(self.i(1, 3)))
        s = f"SELECT {distinct}{projs} FROM {self.table_ref(d)}"
        for _ in range(self.i(0, 2) if d > 0 else 0):
            kind = self.pick(("JOIN", "INNER JOIN", "LEFT JOIN", "RIGHT JOIN", "FULL JOIN", "CROSS JOIN", "LEFT OUTER JOIN", ","))
            self.f.add("join:" + kind.lower().replace(" ", "-"))
            if kind in ("CROSS JOIN", ","):
                s += f"{' ' if kind != ',' else ''}{kind} {self.table_ref(d - 1)}"
            elif self.b(1, 5):
                self.f.add("join:using")
                s += f" {kind} {self.table_ref(d - 1)} USING ({self.pick(COLS)})"
            else:
                s += f" {kind} {self.table_ref(d - 1)} ON {self.boolean(min(d, 2))}"
        s += self.where(min(d, 3))
        if group:
            self.f.add("group-by")
            s += f" GROUP BY {', '.join(self.column() for _ in range(self.i(1, 2)))}"
            if self.b(1, 3):
                self.f.add("having")
                s += f" HAVING {self.pick(AGGS)}({self.column()}) > {self.i(0, 9)}"
        if self.b(1, 3):
            self.f.add("order-by")
            s += f" ORDER BY {self.order_items(d)}"
        if self.b(1, 4):
            self.f.add("limit")
            s += f" LIMIT {self.i(1, 100)}"
            if self.b(1, 3):
                self.f.add("offset")
                s += f" OFFSET {self.i(1, 10)}"
        return s

    def query(self, d):
        s = self.select(d)
        if self.b(1, 5):
            op = self.pick(("UNION", "UNION ALL", "INTERSECT", "EXCEPT"))
            self.f.add("setop:" + op.lower().replace(" ", "-"))
            s = f"{s} {op} {self.select(max(d - 1, 0))}"
        if self.b(1, 5):
            n = self.i(1, 2)
            self.f.add("cte" if n == 1 else "cte:multi")
            ctes = ", ".join(f"{name} AS ({self.select(max(d - 1, 0))})" for name in ("cte1", "cte2")[:n])
            s = f"WITH {ctes} {s.replace(' FROM t', ' FROM cte1', 1) if ' FROM t' in s else s}"
        return s

    def statement(self, d):
        k = self.i(0, 19)
        if k < 12:
            return "select", self.query(d)
        if k == 12:
            self.f.add("dml:insert-values")
            cols = f" ({', '.join(COLS[: self.i(1, 3)])})" if self.b() else ""
            rows = ", ".join("(" + ", ".join(self.literal() for _ in range(2)) + ")" for _ in range(self.i(1, 2)))
            return "dml", f"INSERT INTO {self.pick(TABLES)}{cols} VALUES {rows}"
        if k == 13:
            self.f.add("dml:insert-select")
            return "dml", f"INSERT INTO {self.pick(TABLES)} {self.select(min(d, 2))}"
        if k == 14:
            self.f.add("dml:update")
            sets = ", ".join(f"{c} = {self.arith(min(d, 2))}" for c in COLS[: self.i(1, 2)])
            return "dml", f"UPDATE {self.pick(TABLES)} SET {sets}{self.where(min(d, 2))}"
        if k == 15:
            self.f.add("dml:delete")
            return "dml", f"DELETE FROM {self.pick(TABLES)}{self.where(min(d, 2))}"
        if k == 16:
            self.f.add("ddl:create-table")
            cols = []
            for c in COLS[: self.i(1, 4)]:
                s = f"{c} {self.pick(TYPES)}"
                j = self.i(0, 5)
                if j == 0:
                    s += " NOT NULL"
                    self.f.add("ddl:not-null")
                elif j == 1:
                    s += f" DEFAULT {self.pick(('0', chr(39) + 'x' + chr(39), 'NULL'))}"
                    self.f.add("ddl:default")
                elif j == 2:
                    s += " PRIMARY KEY"
                    self.f.add("ddl:pk")
                cols.append(s)
            if self.b(1, 4):
                cols.append(f"PRIMARY KEY ({COLS[0]})")
                self.f.add("ddl:pk-table")
            ine = "IF NOT EXISTS " if self.b(1, 3) else ""
            return "ddl", f"CREATE TABLE {ine}{self.pick(TABLES)} ({', '.join(cols)})"
        if k == 17:
            self.f.add("ddl:create-view")
            return "ddl", f"CREATE {'OR REPLACE ' if self.b(1, 3) else ''}VIEW v AS {self.select(min(d, 2))}"
        if k == 18:
            self.f.add("ddl:drop")
            return "ddl", f"DROP {self.pick(('TABLE', 'VIEW'))} {'IF EXISTS ' if self.b() else ''}{self.pick(TABLES)}"
        if self.b():
            self.f.add("ddl:alter-add")
            return "ddl", f"ALTER TABLE {self.pick(TABLES)} ADD COLUMN c2 {self.pick(TYPES)}"
        self.f.add("ddl:alter-drop")
        return "ddl", f"ALTER TABLE {self.pick(TABLES)} DROP COLUMN c2"


@st.composite
def statement(draw, max_depth: int = 3, only: str | None = None):
    g = G(draw, max_depth)
    d = draw(st.integers(1, max_depth))
    if only == "select":
        kind, sql = "select", g.query(d)
    elif only == "expr":
        kind, sql = "expr", (g.boolean(d) if g.b() else g.arith(d))
    else:
        kind, sql = g.statement(d)
    return {"sql": sql, "features": sorted(g.f), "kind": kind}


def dialect_names() -> list:
    """All registered dialect names, plus "" for the base dialect (resolved from the tree under test)."""
    from sqlglot.dialects import DIALECTS

    return [""] + sorted(n.lower() for n in DIALECTS)
