"""Typed boolean / integer expressions for C06 (and reused by C16-free properties).

An expression is a nested tuple; `render(e)` gives text that both sqlglot's base dialect and SQLite accept
(IF is rendered as IF(...) for sqlglot and IIF(...) for SQLite).  Well-typed by construction: BOOLEAN columns
p,q,r; INT columns a,b,c; integers are never used as connector operands.
"""
from __future__ import annotations

from hypothesis import strategies as st

BOOL_COLS = ("p", "q", "r")
INT_COLS = ("a", "b", "c")
CMP = ("=", "<>", "<", "<=", ">", ">=")


def _lit(draw):
    return ("int", draw(st.integers(-2, 7)))


@st.composite
def int_expr(draw, depth: int, cols=INT_COLS):
    if depth <= 0 or draw(st.integers(0, 9)) < 4:
        k = draw(st.integers(0, 9))
        if k < 5:
            return ("col", draw(st.sampled_from(cols)))
        if k < 9:
            return _lit(draw)
        return ("null",)
    k = draw(st.integers(0, 11))
    if k < 6:
        op = draw(st.sampled_from(("+", "-", "*", "+", "-")))
        return ("bin", op, draw(int_expr(depth - 1, cols)), draw(int_expr(depth - 1, cols)))
    if k == 6:
        return ("neg", draw(int_expr(depth - 1, cols)))
    if k == 7:
        return ("paren", draw(int_expr(depth - 1, cols)))
    if k == 8:
        n = draw(st.integers(2, 3))
        return ("coalesce", [draw(int_expr(depth - 1, cols)) for _ in range(n)])
    if k == 9:
        if draw(st.booleans()):
            return draw(_casen(depth, lambda: int_expr(depth - 1, cols), lambda: bool_expr(depth - 1)))
        return ("case", draw(bool_expr(depth - 1)), draw(int_expr(depth - 1, cols)), draw(int_expr(depth - 1, cols)))
    if k == 10:
        return ("if", draw(bool_expr(depth - 1)), draw(int_expr(depth - 1, cols)), draw(int_expr(depth - 1, cols)))
    return ("bin", "+", draw(int_expr(depth - 1, cols)), _lit(draw))


@st.composite
def _casen(draw, depth, value, cond):
    """Multi-branch CASE: 2-3 WHEN branches, optional ELSE, conditions constant (TRUE/FALSE/NULL/1 = 1) a third of the time --
    the position of a statically known branch among unknown ones is what the conditional simplifier must respect.
    ("casen", [c1, v1, c2, v2, ...], default | None); ("cases", operand, [m1, v1, ...], default | None) is CASE x WHEN m ..."""
    n = draw(st.integers(2, 3))
    flat = []
    simple = draw(st.integers(0, 3)) == 0
    for _ in range(n):
        if simple:
            flat.append(draw(st.sampled_from((("int", 0), ("int", 1), ("null",), ("col", "a"), ("col", "b")))))
        elif draw(st.integers(0, 2)) == 0:
            flat.append(draw(st.sampled_from((("bool", True), ("bool", False), ("null",), ("cmp", "=", ("int", 1), ("int", 1)), ("cmp", "<", ("int", 2), ("int", 1))))))
        else:
            flat.append(draw(cond()))
        flat.append(draw(value()))
    default = draw(value()) if draw(st.integers(0, 2)) else None
    if simple:
        return ("cases", draw(st.sampled_from((("col", "a"), ("col", "b"), ("int", 1), ("null",)))), flat, default)
    return ("casen", flat, default)


@st.composite
def atom(draw, depth: int = 1):
    """A boolean atom; biased towards `col <cmp> literal` on few columns so pairs of atoms interact."""
    k = draw(st.integers(0, 15))
    if k < 3:
        return ("col", draw(st.sampled_from(BOOL_COLS)))
    if k < 8:
        col = ("col", draw(st.sampled_from(INT_COLS[:2])))
        lit = _lit(draw)
        op = draw(st.sampled_from(CMP))
        if draw(st.integers(0, 4)) == 0:
            return ("cmp", op, lit, col)
        return ("cmp", op, col, lit)
    if k == 8:
        # COALESCE compared with a constant: 1-3 non-constant arguments, then a constant (or NULL, then a constant), either side --
        # the shape simplify_coalesce rewrites into (args IS [NOT] NULL AND ...) OR (...)
        args = [("col", draw(st.sampled_from(INT_COLS))) for _ in range(draw(st.integers(1, 3)))]
        if draw(st.integers(0, 4)) == 0:
            args.append(("null",))
        args.append(_lit(draw))
        if draw(st.integers(0, 3)) == 0:
            args.append(_lit(draw))
        co = ("coalesce", args)
        op = draw(st.sampled_from(CMP))
        return ("cmp", op, _lit(draw), co) if draw(st.integers(0, 2)) == 0 else ("cmp", op, co, _lit(draw))
    if k < 10:
        return ("cmp", draw(st.sampled_from(CMP)), draw(int_expr(depth)), draw(int_expr(depth)))
    if k == 10:
        which = draw(st.sampled_from(BOOL_COLS + INT_COLS))
        return ("isnull", ("col", which), draw(st.booleans()))
    if k == 11:
        return ("between", draw(int_expr(depth)), draw(int_expr(depth - 1)), draw(int_expr(depth - 1)), draw(st.booleans()))
    if k == 12:
        n = draw(st.integers(1, 3))
        items = [draw(st.one_of(st.just(("null",)), st.builds(lambda v: ("int", v), st.integers(-2, 7)))) if draw(st.integers(0, 7)) == 0 else _lit(draw) for _ in range(n)]
        return ("in", draw(int_expr(depth)), items, draw(st.booleans()))
    if k == 13:
        return ("bool", draw(st.sampled_from((True, False))))
    if k == 14:
        if draw(st.booleans()):
            return ("null",)
        # double negation of a non-boolean operand must not be eliminated (NOT NOT 5 is TRUE, not 5)
        return ("cmp", "=", ("paren", ("not", ("not", ("col", draw(st.sampled_from(INT_COLS[:2])))))), ("int", draw(st.integers(0, 2))))
    # arithmetic comparison in the shape simplify_equality looks for:  col +/- lit <cmp> lit
    col = ("col", draw(st.sampled_from(INT_COLS[:2])))
    op = draw(st.sampled_from(("+", "-")))
    l, r = (col, _lit(draw)) if draw(st.booleans()) else (_lit(draw), col)
    return ("cmp", draw(st.sampled_from(CMP)), ("bin", op, l, r), _lit(draw))


@st.composite
def bool_expr(draw, depth: int, pool=None):
    if depth <= 0:
        if pool and draw(st.integers(0, 3)) > 0:
            return draw(st.sampled_from(pool))
        return draw(atom(1))
    k = draw(st.integers(0, 15))
    if k < 3:
        if pool and draw(st.integers(0, 3)) > 0:
            return draw(st.sampled_from(pool))
        return draw(atom(min(depth, 2)))
    if k < 7:
        op = draw(st.sampled_from(("and", "or")))
        n = draw(st.integers(2, 3))
        return (op, [draw(bool_expr(depth - 1, pool)) for _ in range(n)])
    if k < 9:
        return ("not", draw(bool_expr(depth - 1, pool)))
    if k < 11:
        return ("paren", draw(bool_expr(depth - 1, pool)))
    if k == 11:
        n = draw(st.integers(2, 3))
        return ("coalesce", [draw(bool_expr(depth - 1, pool)) for _ in range(n)])
    if k == 12:
        if draw(st.booleans()):
            return draw(_casen(depth, lambda: bool_expr(depth - 1, pool), lambda: bool_expr(depth - 1, pool)))
        return ("case", draw(bool_expr(depth - 1, pool)), draw(bool_expr(depth - 1, pool)), draw(bool_expr(depth - 1, pool)))
    if k == 13:
        return ("if", draw(bool_expr(depth - 1, pool)), draw(bool_expr(depth - 1, pool)), draw(bool_expr(depth - 1, pool)))
    if k == 14:
        return ("isnull", draw(bool_expr(depth - 1, pool)), draw(st.booleans()))
    # boolean equality between boolean operands
    return ("cmp", draw(st.sampled_from(("=", "<>"))), ("paren", draw(bool_expr(depth - 1, pool))), ("paren", draw(bool_expr(depth - 1, pool))))


@st.composite
def cmp_cluster(draw):
    """AND/OR of 2-3 comparisons of ONE column against literals within a 3-value window, optionally negated or with
    swapped sides: covers every (op1, op2, literal order) cell of the comparison-pair simplification table."""
    col = ("col", draw(st.sampled_from(INT_COLS[:2])))
    k = draw(st.integers(-1, 6))
    n = draw(st.integers(2, 3))
    parts = []
    for _ in range(n):
        lit = ("int", k + draw(st.integers(-1, 1)))
        op = draw(st.sampled_from(CMP))
        a = ("cmp", op, lit, col) if draw(st.integers(0, 5)) == 0 else ("cmp", op, col, lit)
        if draw(st.integers(0, 5)) == 0:
            a = ("not", a)
        parts.append(a)
    e = (draw(st.sampled_from(("and", "or"))), parts)
    j = draw(st.integers(0, 5))
    if j == 0:
        e = ("not", e)
    elif j == 1:
        e = (draw(st.sampled_from(("and", "or"))), [e, draw(atom(1))])
    return e


@st.composite
def pooled_bool_expr(draw, depth: int):
    """Connectors over a small pool of atoms and their negations: drives absorb/eliminate/complement/uniq rules."""
    n = draw(st.integers(1, 4))
    pool = [draw(atom(1)) for _ in range(n)]
    pool = pool + [("not", a) for a in pool[:2]]
    return draw(bool_expr(depth, pool))


# --- rendering -------------------------------------------------------------------------------

_PREC = {"or": 1, "and": 2, "not": 3, "cmp": 4, "isnull": 4, "between": 4, "in": 4, "+": 5, "-": 5, "*": 6, "neg": 7}


def render(e, sqlite: bool = False, qual: str = "") -> str:
    """Fully explicit text: every compound operand is parenthesised unless it is an atom-like form, except
    that same-connector chains are left flat (a AND b AND c) to exercise flattening."""
    k = e[0]
    r = lambda x: render(x, sqlite, qual)  # noqa: E731

    def wrap(x):
        s = r(x)
        if x[0] in ("col", "int", "bool", "null", "paren", "coalesce", "case", "casen", "cases", "if"):
            if x[0] == "int" and x[1] < 0:
                return f"({s})"
            return s
        return f"({s})"

    if k == "col":
        return f"{qual}{e[1]}"
    if k == "int":
        return str(e[1])
    if k == "bool":
        return "TRUE" if e[1] else "FALSE"
    if k == "null":
        return "NULL"
    if k == "paren":
        return f"({r(e[1])})"
    if k == "neg":
        return f"- {wrap(e[1])}"
    if k == "bin":
        return f"{wrap(e[2])} {e[1]} {wrap(e[3])}"
    if k == "cmp":
        return f"{wrap(e[2])} {e[1]} {wrap(e[3])}"
    if k in ("and", "or"):
        parts = []
        for x in e[1]:
            if x[0] in ("and", "or", "not") and x[0] != k:
                # AND under OR may stay bare (precedence), everything else gets parens
                if k == "or" and x[0] == "and":
                    parts.append(r(x))
                elif x[0] == "not":
                    parts.append(r(x))
                else:
                    parts.append(f"({r(x)})")
            elif x[0] == k:
                parts.append(f"({r(x)})")
            else:
                parts.append(wrap(x) if x[0] not in ("cmp", "isnull", "between", "in") else r(x))
        return f" {k.upper()} ".join(parts)
    if k == "not":
        x = e[1]
        if x[0] in ("col", "bool", "null", "paren", "coalesce", "case", "casen", "cases", "if", "not"):
            return f"NOT {r(x)}"
        return f"NOT ({r(x)})"
    if k == "isnull":
        return f"{wrap(e[1])} IS {'NOT ' if e[2] else ''}NULL"
    if k == "between":
        return f"{wrap(e[1])} {'NOT ' if e[4] else ''}BETWEEN {wrap(e[2])} AND {wrap(e[3])}"
    if k == "in":
        return f"{wrap(e[1])} {'NOT ' if e[3] else ''}IN ({', '.join(r(x) for x in e[2])})"
    if k == "coalesce":
        return f"COALESCE({', '.join(r(x) for x in e[1])})"
    if k == "case":
        return f"CASE WHEN {r(e[1])} THEN {r(e[2])} ELSE {r(e[3])} END"
    if k in ("casen", "cases"):
        flat, default = (e[1], e[2]) if k == "casen" else (e[2], e[3])
        head = "CASE" if k == "casen" else f"CASE {wrap(e[1])}"
        body = " ".join(f"WHEN {r(flat[i]) if k == 'casen' else wrap(flat[i])} THEN {r(flat[i + 1])}" for i in range(0, len(flat), 2))
        return f"{head} {body}{' ELSE ' + r(default) if default is not None else ''} END"
    if k == "if":
        return f"{'IIF' if sqlite else 'IF'}({r(e[1])}, {r(e[2])}, {r(e[3])})"
    raise ValueError(k)


def columns(e, acc=None) -> set:
    acc = set() if acc is None else acc
    if e[0] == "col":
        acc.add(e[1])
    for x in e[1:]:
        if isinstance(x, tuple):
            columns(x, acc)
        elif isinstance(x, list):
            for y in x:
                if isinstance(y, tuple):
                    columns(y, acc)
    return acc


def kinds(e, acc=None) -> set:
    acc = set() if acc is None else acc
    acc.add(e[0] if e[0] not in ("bin", "cmp") else f"{e[0]}:{e[1]}")
    for x in e[1:]:
        if isinstance(x, tuple):
            kinds(x, acc)
        elif isinstance(x, list):
            for y in x:
                if isinstance(y, tuple):
                    kinds(y, acc)
    return acc
