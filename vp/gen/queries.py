"""Typed relational queries + small NULL-bearing databases, built by construction.

`case(profile)` is a Hypothesis strategy returning
  {"sql": text, "tables": {name: [[...rows...]]}, "features": [...], "ordered": bool, "ncols": int}
over the fixed schema SCHEMA.  Every output column is named o0..oN; ORDER BY, when present, lists every output column so
that the order is total; LIMIT/OFFSET only appear under such an ORDER BY.  Expressions are well-typed (INT/TEXT never mixed)
so that the strict engine (DuckDB) accepts them.
"""
from __future__ import annotations

from hypothesis import strategies as st

SCHEMA = {
    "t": [("a", "int"), ("b", "int"), ("c", "text")],
    "u": [("a", "int"), ("d", "int"), ("e", "text")],
    "v": [("b", "int"), ("f", "int"), ("g", "text")],
}
SQL_TYPES = {"int": "INT", "text": "TEXT", "ts": "TIMESTAMP"}
INT_VALUES = (None, 0, 1, 2, 3, -1, 1, 2)
TEXT_VALUES = (None, "a", "b", "ab", "B", "", "a")

PROFILES = {
    # what the property at hand allows
    "optimizer": dict(windows=True, subqueries=True, any_all=True, full_join=True, setops=True, ctes=True, derived=True, limit=True, text_ops=True, distinct=True, group=True, setop_all=True),
    "executor": dict(explicit_nulls=True, windows=False, subqueries=True, any_all=False, full_join=True, setops=True, ctes=True, derived=True, limit=True, text_ops=False, distinct=True, group=True, setop_all=True),
    "common": dict(nullfuncs=True, windows=False, subqueries=True, any_all=False, full_join=True, setops=True, ctes=True, derived=True, limit=True, text_ops=True, distinct=True, group=True, setop_all=False),
    "lineage": dict(windows=False, subqueries=False, any_all=False, full_join=False, setops=True, ctes=True, derived=True, limit=False, text_ops=True, distinct=False, group=False, setop_all=True),
}


@st.composite
def tables(draw, max_rows=5):
    out = {}
    for name, cols in SCHEMA.items():
        n = draw(st.sampled_from((0, 1, 2, 3, 4, max_rows, max_rows)))
        rows = []
        for _ in range(n):
            rows.append([draw(st.sampled_from(INT_VALUES if ty == "int" else TEXT_VALUES)) for _, ty in cols])
        if rows and draw(st.integers(0, 3)) == 0:
            rows.append(list(rows[0]))  # exact duplicate row
        out[name] = rows
    return out


class Q:
    def __init__(self, draw, profile, max_depth):
        self.draw = draw
        self.p = dict(PROFILES[profile]) if isinstance(profile, str) else dict(profile)
        self.f: set = set()
        self.max_depth = max_depth
        self.alias_n = 0
        self.ctes: list = []  # (name, [(col, type)], sql)
        self.cte_refs = {}

    def i(self, lo, hi):
        return self.draw(st.integers(lo, hi))

    def b(self, num=1, den=2):
        return self.draw(st.integers(0, den - 1)) < num

    def pick(self, seq):
        return self.draw(st.sampled_from(list(seq)))

    def new_alias(self):
        self.alias_n += 1
        return f"x{self.alias_n}"

    # ---- expressions ---------------------------------------------------------------------------
    def cols(self, scope, ty):
        return [(al, c) for al, cs in scope for c, t in cs if t == ty]

    def col(self, scope, ty):
        cands = self.cols(scope, ty)
        if not cands:
            return None
        al, c = self.pick(cands)
        return f"{al}.{c}"

    def int_expr(self, scope, d):
        k = self.i(0, 11)
        c = self.col(scope, "int")
        if d <= 0 or k < 5:
            if c is not None and self.b(3, 4):
                return c
            return str(self.i(0, 3))
        if k < 8:
            op = self.pick(("+", "-", "*"))
            self.f.add("arith")
            return f"({self.int_expr(scope, d - 1)} {op} {self.int_expr(scope, d - 1)})"
        if k == 8:
            self.f.add("coalesce")
            return f"COALESCE({self.int_expr(scope, d - 1)}, {self.int_expr(scope, d - 1)})"
        if k == 9:
            self.f.add("case")
            return f"CASE WHEN {self.bool_expr(scope, d - 1, False)} THEN {self.int_expr(scope, d - 1)} ELSE {self.int_expr(scope, d - 1)} END"
        if k == 10 and self.p["text_ops"]:
            t = self.col(scope, "text")
            if t is not None:
                self.f.add("length")
                return f"LENGTH({t})"
        if k == 11:
            if self.p.get("nullfuncs") and self.b():
                fn = self.pick(("IFNULL", "NULLIF"))
                self.f.add(fn.lower())
                return f"{fn}({self.int_expr(scope, d - 1)}, {self.int_expr(scope, d - 1)})"
            self.f.add("abs")
            return f"ABS({self.int_expr(scope, d - 1)})"
        return c if c is not None else "1"

    def text_expr(self, scope, d):
        c = self.col(scope, "text")
        k = self.i(0, 9)
        if d <= 0 or k < 5 or not self.p["text_ops"]:
            if c is not None and self.b(3, 4):
                return c
            return "'" + self.pick(("a", "b", "ab", "zz")) + "'"
        if k == 5:
            self.f.add("upper-lower")
            return f"{self.pick(('UPPER', 'LOWER'))}({self.text_expr(scope, d - 1)})"
        if k == 6:
            self.f.add("coalesce")
            return f"COALESCE({self.text_expr(scope, d - 1)}, {self.text_expr(scope, d - 1)})"
        if k == 7:
            self.f.add("concat")
            return f"({self.text_expr(scope, d - 1)} || {self.text_expr(scope, d - 1)})"
        if k == 8:
            self.f.add("case")
            return f"CASE WHEN {self.bool_expr(scope, d - 1, False)} THEN {self.text_expr(scope, d - 1)} ELSE {self.text_expr(scope, d - 1)} END"
        self.f.add("cast-text")
        return f"CAST({self.int_expr(scope, d - 1)} AS TEXT)"

    def bool_expr(self, scope, d, allow_sub=True):
        k = self.i(0, 15)
        if d <= 0 or k < 6:
            if self.b(3, 4) or not self.cols(scope, "text"):
                return f"{self.int_expr(scope, min(d, 1))} {self.pick(('=', '<>', '<', '<=', '>', '>='))} {self.int_expr(scope, min(d, 1))}"
            return f"{self.text_expr(scope, min(d, 1))} {self.pick(('=', '<>', '<', '>='))} {self.text_expr(scope, min(d, 1))}"
        if k < 9:
            self.f.add("and-or")
            return f"({self.bool_expr(scope, d - 1, allow_sub)} {self.pick(('AND', 'OR'))} {self.bool_expr(scope, d - 1, allow_sub)})"
        if k == 9 or (k == 8 and self.b()):
            self.f.add("not")
            if self.b():
                # NOT over a connector with a nullable operand: distinguishes NULL from FALSE inside WHERE
                return f"NOT ({self.bool_expr(scope, 0, False)} {self.pick(('AND', 'OR'))} {self.bool_expr(scope, 0, False)})"
            return f"NOT ({self.bool_expr(scope, d - 1, allow_sub)})"
        if k == 10:
            self.f.add("is-null")
            if self.b(1, 3):
                # three-valued result of a connector observed directly
                self.f.add("connector-is-null")
                return f"({self.bool_expr(scope, 0, False)} {self.pick(('AND', 'OR'))} {self.bool_expr(scope, 0, False)}) IS {'NOT ' if self.b() else ''}NULL"
            c = self.col(scope, self.pick(("int", "text"))) or "1"
            return f"{c} IS {'NOT ' if self.b() else ''}NULL"
        if k == 11:
            self.f.add("between")
            return f"{self.int_expr(scope, 0)} BETWEEN {self.int_expr(scope, 0)} AND {self.int_expr(scope, 0)}"
        if k == 12:
            self.f.add("in-list")
            items = ", ".join(self.pick(("0", "1", "2", "3", "NULL")) for _ in range(self.i(1, 3)))
            return f"{self.int_expr(scope, 0)} {'NOT ' if self.b(1, 3) else ''}IN ({items})"
        if allow_sub and self.p["subqueries"] and d >= 1:
            return self.subquery_pred(scope, d - 1, k)
        return f"{self.int_expr(scope, 0)} = {self.int_expr(scope, 0)}"

    def subquery_pred(self, scope, d, k):
        tname = self.pick(SCHEMA)
        al = self.new_alias()
        inner = [(al, SCHEMA[tname])]
        icol = self.col(inner, "int")
        correlated = self.b()
        where = ""
        if correlated:
            oc = self.col(scope, "int")
            if oc is not None:
                where = f" WHERE {icol} {self.pick(('=', '=', '<', '<>'))} {oc}"
                self.f.add("correlated")
        elif self.b():
            where = f" WHERE {self.bool_expr(inner, 0, False)}"
        shape = self.i(0, 5) if not correlated else 0
        tail = ""
        sel = icol
        if shape == 1:
            self.f.add("sub:grouped")
            other = self.col(inner, self.pick(("int", "text")))
            tail = f" GROUP BY {icol}" + (f", {other}" if other and other != icol and self.b() else "")
        elif shape == 2:
            self.f.add("sub:distinct")
            sel = f"DISTINCT {icol}"
        elif shape == 3:
            self.f.add("sub:grouped-agg")
            other = self.col(inner, "int") or icol
            sel = f"{self.pick(('MAX', 'MIN', 'COUNT'))}({icol})"
            tail = f" GROUP BY {other}"
        if k == 13:
            self.f.add("sub:in")
            neg = "NOT " if self.b(1, 3) else ""
            if neg:
                self.f.add("sub:not-in")
            return f"{self.int_expr(scope, 0)} {neg}IN (SELECT {sel} FROM {tname} AS {al}{where}{tail})"
        if k == 14:
            self.f.add("sub:exists")
            return f"{'NOT ' if self.b(1, 3) else ''}EXISTS (SELECT 1 FROM {tname} AS {al}{where})"
        if self.p["any_all"] and self.b(1, 3):
            self.f.add("sub:any")
            return f"{self.int_expr(scope, 0)} {self.pick(('=', '<', '>'))} ANY (SELECT {sel} FROM {tname} AS {al}{where}{tail})"
        self.f.add("sub:scalar")
        agg = self.pick(("MAX", "MIN", "SUM", "COUNT"))
        return f"{self.int_expr(scope, 0)} {self.pick(('=', '<', '>=', '<>'))} (SELECT {agg}({icol}) FROM {tname} AS {al}{where})"

    # ---- FROM -----------------------------------------------------------------------------------
    def source(self, d):
        """Returns (sql, alias, cols)."""
        k = self.i(0, 9)
        al = self.new_alias()
        if self.ctes and k < 3:
            name, cols, _ = self.pick(self.ctes)
            self.cte_refs[name] = self.cte_refs.get(name, 0) + 1
            self.f.add("cte-ref")
            return f"{name} AS {al}", al, cols
        if d > 0 and self.p["derived"] and k in (3, 4):
            self.f.add("derived")
            sql, cols, _ = self.select(d - 1, nested=True)
            return f"({sql}) AS {al}", al, cols
        t = self.pick(SCHEMA)
        return f"{t} AS {al}", al, list(SCHEMA[t])

    def from_clause(self, d):
        sql, al, cols = self.source(d)
        scope = [(al, cols)]
        n = self.i(0, 2) if d > 0 else self.i(0, 1)
        for _ in range(n):
            kinds = ["JOIN", "LEFT JOIN", "CROSS JOIN", "RIGHT JOIN", "INNER JOIN"] + (["FULL JOIN"] if self.p["full_join"] else [])
            kind = self.pick(kinds)
            s2, al2, cols2 = self.source(d - 1)
            self.f.add("join:" + kind.split()[0].lower())
            new_scope = scope + [(al2, cols2)]
            if kind == "CROSS JOIN":
                sql += f" CROSS JOIN {s2}"
            else:
                l = self.col(scope, "int")
                r = self.col([(al2, cols2)], "int")
                if l is None or r is None:
                    on = "1 = 1"
                else:
                    on = f"{l} = {r}"
                    if self.b(1, 4):
                        on += f" AND {self.bool_expr(new_scope, 0, False)}"
                        self.f.add("join:residual")
                    elif self.b(1, 6):
                        on = f"{l} < {r}"
                        self.f.add("join:non-equi")
                sql += f" {kind} {s2} ON {on}"
            scope = new_scope
        return sql, scope

    # ---- SELECT -----------------------------------------------------------------------------------
    def select(self, d, nested=False):
        """Returns (sql, output cols [(name, type)], ordered)."""
        frm, scope = self.from_clause(d)
        where = ""
        if self.b(3, 5):
            self.f.add("where")
            where = f" WHERE {self.bool_expr(scope, min(d + 1, 2))}"
        grouped = self.p["group"] and self.b(1, 4)
        outs = []
        tail = ""
        if grouped:
            self.f.add("group-by")
            keys = []
            for _ in range(self.i(0, 2)):
                ty = self.pick(("int", "text"))
                c = self.col(scope, ty)
                if c is not None and c not in [k for k, _ in keys]:
                    keys.append((c, ty))
            for c, ty in keys:
                outs.append((c, ty))
            for _ in range(self.i(1, 2)):
                agg = self.pick(("COUNT(*)", "SUM", "MIN", "MAX", "COUNT", "AVG", "COUNTD"))
                if agg == "COUNT(*)":
                    outs.append(("COUNT(*)", "int"))
                elif agg == "COUNTD":
                    self.f.add("agg:distinct")
                    outs.append((f"COUNT(DISTINCT {self.col(scope, 'int') or '1'})", "int"))
                elif agg == "AVG":
                    self.f.add("agg:avg")
                    outs.append((f"AVG({self.col(scope, 'int') or '1'})", "float"))
                elif agg in ("MIN", "MAX") and self.b(1, 3) and self.cols(scope, "text"):
                    outs.append((f"{agg}({self.col(scope, 'text')})", "text"))
                else:
                    outs.append((f"{agg}({self.int_expr(scope, 1)})", "int"))
            if keys:
                tail += " GROUP BY " + ", ".join(c for c, _ in keys)
            else:
                self.f.add("agg:no-group")
            if self.b(1, 3):
                self.f.add("having")
                tail += f" HAVING {self.pick(('COUNT(*)', 'SUM(' + (self.col(scope, 'int') or '1') + ')'))} {self.pick(('>', '>=', '<', '='))} {self.i(0, 3)}"
        else:
            for _ in range(self.i(1, 3)):
                k = self.i(0, 9)
                if k < 6:
                    outs.append((self.int_expr(scope, min(d + 1, 2)), "int"))
                elif k < 8:
                    outs.append((self.text_expr(scope, min(d + 1, 2)), "text"))
                elif k == 8 and self.p["windows"]:
                    self.f.add("window")
                    part = self.col(scope, self.pick(("int", "text"))) or self.col(scope, "int") or self.col(scope, "text") or "1"
                    if self.b():
                        arg = self.col(scope, "int") or "1"
                        outs.append((f"{self.pick(('SUM', 'COUNT', 'MIN', 'MAX'))}({arg}) OVER (PARTITION BY {part})", "int"))
                    else:
                        o = self.col(scope, "int") or "1"
                        outs.append((f"{self.pick(('RANK', 'DENSE_RANK'))}() OVER (PARTITION BY {part} ORDER BY {o})", "int"))
                elif k == 9 and self.p["subqueries"] and d >= 1:
                    self.f.add("sub:scalar-projection")
                    tname = self.pick(SCHEMA)
                    al = self.new_alias()
                    icol = self.col([(al, SCHEMA[tname])], "int")
                    oc = self.col(scope, "int")
                    wh = f" WHERE {icol} = {oc}" if (oc and self.b()) else ""
                    if wh:
                        self.f.add("correlated")
                    outs.append((f"(SELECT {self.pick(('MAX', 'MIN', 'SUM', 'COUNT'))}({icol}) FROM {tname} AS {al}{wh})", "int"))
                else:
                    outs.append((self.int_expr(scope, 1), "int"))
        distinct = ""
        if self.p["distinct"] and not grouped and self.b(1, 6):
            self.f.add("distinct")
            distinct = "DISTINCT "
        names = [f"o{i}" for i in range(len(outs))]
        proj = ", ".join(f"{e} AS {n}" for (e, _), n in zip(outs, names))
        sql = f"SELECT {distinct}{proj} FROM {frm}{where}{tail}"
        cols = [(n, "int" if t == "float" else t) for n, (_, t) in zip(names, outs)]
        self.last_types = [t for _, t in outs]
        if nested and self.p["limit"] and self.b(1, 3):
            # a derived table / CTE that keeps only the first rows under a total order (guards against pushing predicates below LIMIT)
            self.f.add("nested-limit")
            self.f.add("limit")
            nulls = self.pick((" NULLS FIRST", " NULLS LAST")) if self.p.get("explicit_nulls") else ""  # default NULL order is engine-specific
            sql += " ORDER BY " + ", ".join(f"o{i}{nulls}" for i in range(len(outs))) + f" LIMIT {self.i(1, 3)}"
        return sql, cols, False

    def order_limit(self, ncols, allow_limit=True):
        items = []
        for i in range(ncols):
            s = f"o{i}"
            k = self.i(0, 5)
            if k == 0:
                s += " DESC"
                self.f.add("order:desc")
            if self.b(1, 4) or self.p.get("explicit_nulls"):
                s += self.pick((" NULLS FIRST", " NULLS LAST"))
                self.f.add("order:nulls-explicit")
            items.append(s)
        sql = " ORDER BY " + ", ".join(items)
        self.f.add("order-by")
        if allow_limit and self.p["limit"] and self.b():
            self.f.add("limit")
            sql += f" LIMIT {self.i(0, 4)}"
            if self.b(1, 3):
                self.f.add("offset")
                sql += f" OFFSET {self.i(0, 2)}"
        return sql

    def query(self, d):
        # CTEs first so that the body can reference them
        if self.p["ctes"] and self.b(1, 4):
            for i in range(self.i(1, 2)):
                sql, cols, _ = self.select(max(d - 1, 0), nested=True)
                self.ctes.append((f"cte{i + 1}", cols, sql))
            self.f.add("cte")
        sql, cols, _ = self.select(d)
        types = list(self.last_types)
        if self.p["setops"] and self.b(1, 5):
            ops = ["UNION", "UNION ALL", "INTERSECT", "EXCEPT"] + (["INTERSECT ALL", "EXCEPT ALL"] if self.p["setop_all"] else [])
            op = self.pick(ops)
            self.f.add("setop:" + op.lower().replace(" ", "-"))
            # second arm: same arity and types, built from plain typed expressions
            frm, scope = self.from_clause(0)
            outs = []
            for i, t in enumerate(types):
                e = self.text_expr(scope, 1) if t == "text" else self.int_expr(scope, 1)
                outs.append(f"{e} AS o{i}")
            wh = f" WHERE {self.bool_expr(scope, 1, False)}" if self.b() else ""
            sql = f"{sql} {op} SELECT {', '.join(outs)} FROM {frm}{wh}"
            types = ["text" if t == "text" else ("float" if t == "float" else "int") for t in types]
        ordered = False
        if self.b(2, 5):
            sql += self.order_limit(len(cols))
            ordered = True
        used = [c for c in self.ctes if self.cte_refs.get(c[0])]
        if self.ctes:
            # unreferenced CTEs are kept too (eliminate_ctes must cope), referenced ones may be used several times
            sql = "WITH " + ", ".join(f"{n} AS ({s})" for n, _, s in self.ctes) + " " + sql
            if any(v >= 2 for v in self.cte_refs.values()):
                self.f.add("cte:multi-ref")
            if len(used) < len(self.ctes):
                self.f.add("cte:unused")
        return sql, cols, ordered, types


@st.composite
def case(draw, profile="optimizer", max_depth=2, max_rows=5):
    q = Q(draw, profile, max_depth)
    d = draw(st.integers(0, max_depth))
    sql, cols, ordered, types = q.query(d)
    return {"sql": sql, "tables": draw(tables(max_rows)), "features": sorted(q.f), "ordered": ordered, "ncols": len(cols), "types": types}


def schema_dict():
    return {t: {c: SQL_TYPES[ty] for c, ty in cols} for t, cols in SCHEMA.items()}
