"""Driver: ./check <Cnn> <quick|thorough> | ./check <Cnn> --replay <file>

exit 0: property held on everything explored (KNOWN-FINDING lines allowed)
exit 1: VIOLATION property=<id> replay=<path>
exit 2: HARNESS-ERROR (never a verdict about the repository)
"""
from __future__ import annotations

import importlib
import json
import multiprocessing as mp
import os
import sys
import time
import traceback
from collections import Counter

from vp import core

NPROC = int(os.environ.get("VERIF_JOBS", "16"))


def _assert_repo():
    import sqlglot
    import sqlglot.tokenizer_core as tc

    repo = os.path.realpath(core.REPO)
    if not os.path.realpath(sqlglot.__file__).startswith(repo + os.sep):
        raise RuntimeError(f"sqlglot imported from {sqlglot.__file__}, expected under {repo}")
    if not tc.__file__.endswith(".py"):
        raise RuntimeError("compiled tokenizer_core overlay in use; runtime wrappers would be invalid")


def _worker(args):
    prop, spec, seed, idx, only_bucket = args
    try:
        mod = importlib.import_module(f"vp.props.{prop.lower()}")
        res = core.Res()
        t0 = time.time()
        shrunk = mod.run_shard(spec, seed, res, only_bucket)
        d = res.to_dict()
        d["shard"] = idx
        d["shrunk"] = shrunk
        d["wall"] = time.time() - t0
        return d
    except BaseException:
        return {"shard": idx, "harness_error": traceback.format_exc()}


def _pool(n):
    ctx = mp.get_context("fork")
    return ctx.Pool(min(NPROC, max(1, n)), maxtasksperchild=None)


def _write_replay(prop, bucket, case, detail, meta):
    os.makedirs(os.path.join(core.OUT, "replay"), exist_ok=True)
    path = os.path.join(core.OUT, "replay", f"{prop}-{core.h8(bucket)}.json")
    with open(path, "w") as f:
        json.dump({"property": prop, "bucket": bucket, "case": case, "detail": detail, **meta}, f, indent=1, default=repr)
    return path


def _validate_evidence(ev):
    try:
        import jsonschema

        with open("/root/.vp/EVIDENCE.schema.json") as f:
            schema = json.load(f)
        jsonschema.validate(ev, schema)
    except FileNotFoundError:
        pass


def _floor(fn, bucket, evaluations):
    try:
        return fn(bucket, evaluations)
    except TypeError:
        return fn(bucket)


def replay_cmd(prop, path):
    mod = importlib.import_module(f"vp.props.{prop.lower()}")
    with open(path) as f:
        data = json.load(f)
    case = data["case"] if "case" in data else data
    fails = mod.replay(case)
    if fails:
        for b, d in fails:
            print(f"replay: bucket={b}\n  {d}")
        print(f"VIOLATION property={prop} replay={path}")
        return 1
    print(f"replay: property {prop} holds on {path}")
    return 0


def main(argv):
    if len(argv) < 2:
        print(__doc__)
        return 2
    prop = argv[0].upper()
    _assert_repo()
    if argv[1] == "--replay":
        return replay_cmd(prop, argv[2])
    tier = argv[1]
    assert tier in ("quick", "thorough"), tier
    seed = int(os.environ.get("VERIF_SEED", "1") or 1)
    t0 = time.time()
    cap = float(os.environ.get("VERIF_WALL_CAP_S", "900" if tier == "quick" else "14400"))

    def _on_alarm(signum, frame):
        # a hang in the code under test (e.g. while replaying a regression input in this process) must end the check
        print(f"HARNESS-ERROR wall-clock cap of {cap:.0f}s reached in the main process (inconclusive: the code under test may hang)")
        sys.stdout.flush()
        for child in mp.active_children():
            child.kill()
        os._exit(2)

    import signal

    signal.signal(signal.SIGALRM, _on_alarm)
    signal.alarm(int(cap) + 20)
    mod = importlib.import_module(f"vp.props.{prop.lower()}")

    violations: list[tuple[str, str]] = []  # (bucket, replay path)
    known_lines: list[str] = []
    known_replayed = []

    import glob

    for old in glob.glob(os.path.join(core.OUT, "replay", f"{prop}-*.json")):
        os.remove(old)

    # 1. regression tier: known findings and fixed defects are replayed first -------------------
    entries = core.load_known(prop)
    for e in entries:
        wit = e.get("witness")
        if wit is None:
            continue
        if isinstance(wit, str):
            with open(os.path.join(core.HOME, wit)) as f:
                wit = json.load(f)
            wit = wit.get("case", wit)
        try:
            fails = mod.replay(wit)
        except Exception as exc:
            tb = traceback.extract_tb(exc.__traceback__)
            if tb and os.path.realpath(tb[-1].filename).startswith(os.path.realpath(core.REPO) + os.sep):
                # the code under test crashed on a regression input: that is a finding about the repository, not about the harness
                fails = [("raised", f"{type(exc).__name__}: {exc} at {tb[-1].filename}:{tb[-1].lineno}")]
            else:
                print("HARNESS-ERROR replaying", e["id"], traceback.format_exc())
                return 2
        known_replayed.append({"id": e["id"], "status": e["status"], "still_fails": bool(fails)})
        if fails and e["status"] == "known":
            known_lines.append(f"KNOWN-FINDING: property={prop} {e['id']}: {e['what']}")
        elif fails and e["status"] == "fixed":
            p = _write_replay(prop, "regress:" + e["id"], wit, fails[0][1], {"seed": seed, "source": "fixed-entry"})
            violations.append(("regress:" + e["id"], p))
    kidx = core.known_bucket_index(entries)

    # 2. generated search ----------------------------------------------------------------------
    specs = mod.plan(tier)
    tasks = [(prop, spec, core.derive_seed(seed, prop, i), i, None) for i, spec in enumerate(specs)]
    results = []
    with _pool(len(tasks)) as pool:
        for r in pool.imap_unordered(_worker, tasks):
            results.append(r)
    results.sort(key=lambda r: r["shard"])
    for r in results:
        if "harness_error" in r:
            print("HARNESS-ERROR in shard", r["shard"], "\n", r["harness_error"])
            return 2

    evaluations = sum(r["evaluations"] for r in results)
    nontrivial = set()
    classes, excluded, ood, fail_buckets = Counter(), Counter(), Counter(), Counter()
    samples, sample_keys = [], set()
    extra: dict = {}
    exhaustive = None
    first_fail: dict[str, dict] = {}
    for r in results:
        nontrivial.update(r["nontrivial"])
        classes.update(r["classes"])
        excluded.update(r["excluded"])
        ood.update(r["out_of_domain"])
        fail_buckets.update(r["fail_buckets"])
        for s in r["samples"]:
            k = core.h8(s)
            if k not in sample_keys and len(samples) < 40:
                sample_keys.add(k)
                samples.append(s)
        for k, v in r["extra"].items():
            if isinstance(v, (int, float)) and not isinstance(v, bool):
                extra[k] = max(extra.get(k, 0), v) if k.startswith("max_") else extra.get(k, 0) + v
            elif isinstance(v, dict):
                c = Counter(extra.get(k, {}))
                c.update(v)
                extra[k] = dict(c)
            elif isinstance(v, list):
                extra.setdefault(k, [])
                extra[k] = (extra[k] + v)[:50]
            else:
                extra[k] = v
        if r["exhaustive"] is not None:
            exhaustive = r["exhaustive"] if exhaustive is None else (exhaustive and r["exhaustive"])
        for f in r["failures"]:
            cur = first_fail.get(f["bucket"])
            if cur is None or len(json.dumps(f["case"], default=repr)) < len(json.dumps(cur["case"], default=repr)):
                first_fail[f["bucket"]] = dict(f, shard=r["shard"])

    rare = {}
    floor = getattr(mod, "frequency_floor", None)
    novel = []
    for b, f in sorted(first_fail.items()):
        if kidx.lookup(b) is not None:
            continue
        if floor is not None and _floor(floor, b, evaluations) > fail_buckets[b]:
            rare[b] = {"hits": fail_buckets[b], "case": f["case"], "detail": f["detail"][:300]}
            continue
        novel.append(b)
    known_hit = Counter({b: n for b, n in fail_buckets.items() if kidx.lookup(b) is not None})
    for b in sorted(known_hit):
        line = f"KNOWN-FINDING: property={prop} {kidx.lookup(b)['id']}: {kidx.lookup(b)['what']}"
        if line not in known_lines:
            known_lines.append(line)

    # 3. shrink each novel bucket and write its replay file ----------------------------------------
    max_report = 8
    shrink_tasks = []
    for b in novel[:max_report]:
        f = first_fail[b]
        if getattr(mod, "no_shrink", lambda _b: False)(b):
            continue  # e.g. work-bound violations: every shrink candidate would cost the whole work budget
        shrink_tasks.append((prop, specs[f["shard"]], core.derive_seed(seed, prop, f["shard"]), f["shard"], b))
    shrunk_by_bucket = {}
    if shrink_tasks and getattr(mod, "HYP_SHRINK", True):
        with _pool(len(shrink_tasks)) as pool:
            for task, r in zip(shrink_tasks, pool.map(_worker, shrink_tasks)):
                if r.get("shrunk"):
                    shrunk_by_bucket[task[4]] = r["shrunk"]
    for b in novel:
        f = first_fail[b]
        case, detail = f["case"], f["detail"]
        s = shrunk_by_bucket.get(b)
        if s is not None:
            try:
                if any(bb == b for bb, _ in mod.replay(s["case"])):
                    case, detail = s["case"], s["detail"]
            except Exception:
                pass
        if hasattr(mod, "minimize"):
            try:
                case2 = mod.minimize(case, b)
                again = [d for bb, d in mod.replay(case2) if bb == b]
                if again:
                    case, detail = case2, again[0]
            except Exception:
                pass
        p = _write_replay(prop, b, case, detail, {"seed": seed, "tier": tier, "shard": f["shard"], "hits": fail_buckets[b]})
        violations.append((b, p))

    if not samples:
        # every explored case failed (or none qualified as a clean sample): show failing cases instead
        samples = [{"failing_case": f["case"]} for f in list(first_fail.values())[:5]] or [{"note": "no case qualified as a sample"}]
    wall = time.time() - t0
    rule = mod.RULE
    cov = {
        "evaluations": evaluations,
        "distinct_nontrivial": len(nontrivial),
        "rule": rule,
        "samples": samples[:30],
        "classes": dict(sorted(classes.items())),
        "excluded_by_known_finding": dict(excluded),
        "out_of_domain": dict(ood),
        "known_findings_replayed": known_replayed,
        "known_bucket_hits": dict(known_hit),
        "uncatalogued_rare_buckets": rare,
        "violation_buckets": {b: fail_buckets.get(b, 1) for b, _ in violations},
        "shards": len(specs),
        **extra,
    }
    if exhaustive is not None:
        cov["exhaustive"] = bool(exhaustive)
    ev = {
        "property_id": prop,
        "tier": tier,
        "seed": seed,
        "level": getattr(mod, "LEVEL", "exploration"),
        "coverage": cov,
        "assumptions": list(getattr(mod, "ASSUMPTIONS", [])),
        "wall_s": round(wall, 2),
        "violations": len(violations),
    }
    ev = json.loads(json.dumps(ev, default=repr))
    try:
        _validate_evidence(ev)
    except Exception as e:  # schema problem is a harness problem -- but never at the price of hiding a violation
        print("HARNESS-ERROR evidence does not validate:", str(e)[:500])
        if not violations:
            return 2
    os.makedirs(os.path.join(core.OUT, "evidence"), exist_ok=True)
    with open(os.path.join(core.OUT, "evidence", f"{prop}.json"), "w") as f:
        json.dump(ev, f, indent=1, sort_keys=True)
        f.write("\n")

    for line in known_lines:
        print(line)
    print(
        f"{prop} {tier} seed={seed}: {evaluations} cases, {len(nontrivial)} distinct non-trivial, "
        f"{len(violations)} violation bucket(s), {len(rare)} rare uncatalogued, {wall:.1f}s"
    )
    # generator sanity: a vacuous run must not pass silently
    mins = getattr(mod, "MIN_CLASSES", {}).get(tier, {})
    short = {k: (classes.get(k, 0), v) for k, v in mins.items() if classes.get(k, 0) < v}
    if violations:
        for b, p in violations:
            print(f"  bucket: {b}")
            print(f"VIOLATION property={prop} replay={p}")
        return 1
    if short:
        print("HARNESS-ERROR generator produced too few cases of classes (have, need):", short)
        return 2
    return 0


if __name__ == "__main__":
    try:
        rc = main(sys.argv[1:])
    except SystemExit:
        raise
    except BaseException:
        print("HARNESS-ERROR", traceback.format_exc())
        rc = 2
    sys.stdout.flush()
    os._exit(rc)
