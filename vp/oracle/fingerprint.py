"""Independent structural view of sqlglot trees: fingerprint, rebuild, link invariant.

Nothing here calls Expr.__eq__/__hash__/copy(); private slots are never read (public .type/.comments/.meta only).
"""
from __future__ import annotations

import typing as t


def _is_expr(v) -> bool:
    from sqlglot.expressions.core import Expr

    return isinstance(v, Expr)


def fingerprint(node, deep: bool = False):
    """Tuple mirroring the documented equality: class + args, strings case-insensitive except in
    Identifier/Literal, None/False/[] args absent.  deep=True adds comments, public type and meta and
    makes every string case-sensitive (used for "nothing at all changed" comparisons)."""
    stack_result = _fp(node, deep)
    return stack_result


def _val(v, deep, lower):
    if _is_expr(v):
        return _fp(v, deep)
    if isinstance(v, str):
        return v.lower() if lower and not deep else v
    if isinstance(v, (list, tuple)):
        return tuple(_val(x, deep, lower) for x in v)
    if isinstance(v, (int, float, bool)) or v is None:
        return v
    return ("<obj>", type(v).__name__, repr(v))


def _fp(node, deep):
    raw = bool(getattr(type(node), "_hash_raw_args", False))
    items = []
    for k in sorted(node.args):
        v = node.args[k]
        if raw and not deep:
            if v:
                items.append((k, _val(v, deep, False)))
            continue
        if type(v) is list:
            if not v:
                continue
            elems = []
            for x in v:
                if x is None or x is False:
                    elems.append(("<absent>",))
                else:
                    elems.append(_val(x, deep, True))
            items.append((k, tuple(elems)))
        elif v is not None and v is not False:
            items.append((k, _val(v, deep, not raw)))
    out = (type(node).__name__, tuple(items))
    if deep:
        try:
            ty = node.type
        except Exception:  # e.g. a Cast whose required "to" was removed by an edit
            ty = None
        ty_s = None
        if ty is not None and ty is not node:
            ty_s = _fp(ty, False) if _is_expr(ty) else repr(ty)
        comments = tuple(node.comments) if node.comments else ()
        try:
            meta_t = tuple(sorted((str(k), repr(v)) for k, v in (node.meta or {}).items()))
        except Exception:
            meta_t = ("<unrepr>",)
        out = out + (ty_s, comments, meta_t)
    return out


def rebuild(node):
    """Reconstruct the tree through the public constructors so that it carries no cached state."""
    # cls() + set(): a few constructors normalise their arguments (TimeUnit re-creates its unit Var), which would make the rebuilt
    # tree differ from an edited original for reasons that have nothing to do with cached hashes
    new = type(node)()
    for k, v in node.args.items():
        if _is_expr(v):
            new.set(k, rebuild(v))
        elif type(v) is list:
            new.set(k, [rebuild(x) if _is_expr(x) else x for x in v])
        elif v is not None:
            new.set(k, v)
    return new


def link_errors(root, limit: int = 5) -> t.List[str]:
    """Parent/arg_key/index of every child must describe where it is actually stored; no node stored twice."""
    errs: t.List[str] = []
    seen: dict = {}
    stack = [root]
    seen[id(root)] = ("<root>", None, None)
    while stack and len(errs) < limit:
        n = stack.pop()
        for k, v in n.args.items():
            children = []
            if _is_expr(v):
                children.append((v, None))
            elif type(v) is list:
                for i, x in enumerate(v):
                    if _is_expr(x):
                        children.append((x, i))
            for c, idx in children:
                where = f"{type(n).__name__}.{k}" + (f"[{idx}]" if idx is not None else "")
                if id(c) in seen:
                    errs.append(f"node {type(c).__name__} stored twice: {seen[id(c)][0]} and {where}")
                    continue
                seen[id(c)] = (where, n, idx)
                if c.parent is not n:
                    errs.append(f"{where}: child {type(c).__name__} has parent {type(c.parent).__name__ if c.parent is not None else None}")
                elif c.arg_key != k:
                    errs.append(f"{where}: child {type(c).__name__} records arg_key {c.arg_key!r}")
                elif c.index != idx:
                    errs.append(f"{where}: child {type(c).__name__} records index {c.index!r}")
                stack.append(c)
    return errs


def hash_errors(root, limit: int = 3, max_nodes: int = 400) -> t.List[str]:
    """hash(node) (cached or not) must equal the hash of an independently rebuilt copy, for every node."""
    errs = []
    nodes = []
    stack = [root]
    while stack and len(nodes) < max_nodes:
        n = stack.pop()
        nodes.append(n)
        for v in n.args.values():
            if _is_expr(v):
                stack.append(v)
            elif type(v) is list:
                stack.extend(x for x in v if _is_expr(x))
    # children first, so a stale child is reported rather than each of its ancestors
    for n in reversed(nodes):
        try:
            fresh = rebuild(n)
        except Exception as e:  # constructor refuses: not a hash problem
            continue
        if hash(n) != hash(fresh):
            errs.append(f"stale hash on {type(n).__name__}: {safe_sql(n)!r}")
            if len(errs) >= limit:
                break
    return errs


def safe_sql(n, limit: int = 80) -> str:
    try:
        return n.sql()[:limit]
    except Exception as e:  # structurally incomplete tree after an edit
        return f"<{type(n).__name__}: {type(e).__name__}>"


def node_ids(root) -> set:
    out = set()
    stack = [root]
    while stack:
        n = stack.pop()
        out.add(id(n))
        for v in n.args.values():
            if _is_expr(v):
                stack.append(v)
            elif type(v) is list:
                stack.extend(x for x in v if _is_expr(x))
    return out


def count_nodes(root) -> int:
    return len(node_ids(root))
