"""Reference engines (duckdb, sqlite3): load a small database, run a query, normalise and compare results."""
from __future__ import annotations

import datetime
import decimal
import math
import sqlite3

from vp.gen.queries import SCHEMA, SQL_TYPES

_duck = None


class EngineError(Exception):
    pass


def duck_conn(tables, schema=None):
    import duckdb

    schema = schema or SCHEMA
    con = duckdb.connect(":memory:", config={"threads": 1})
    for name, cols in schema.items():
        con.execute(f"CREATE TABLE {name} ({', '.join(f'{c} {_duck_type(t)}' for c, t in cols)})")
        rows = tables.get(name) or []
        if rows:
            con.executemany(f"INSERT INTO {name} VALUES ({', '.join('?' for _ in cols)})", rows)
    return con


def _duck_type(t):
    return {"int": "INTEGER", "text": "VARCHAR", "ts": "TIMESTAMP"}.get(t, t)


def sqlite_conn(tables, schema=None):
    schema = schema or SCHEMA
    con = sqlite3.connect(":memory:")
    for name, cols in schema.items():
        con.execute(f"CREATE TABLE {name} ({', '.join(f'{c} {SQL_TYPES.get(t, t)}' for c, t in cols)})")
        rows = tables.get(name) or []
        if rows:
            con.executemany(f"INSERT INTO {name} VALUES ({', '.join('?' for _ in cols)})", rows)
    return con


class Duck:
    """One in-memory database, many read-only queries (the generated queries never write)."""

    def __init__(self, tables, schema=None):
        self.con = duck_conn(tables, schema)

    def run(self, sql):
        import duckdb

        try:
            cur = self.con.execute(sql)
            names = [d[0] for d in cur.description]
            rows = cur.fetchall()
            return names, [tuple(norm(v) for v in r) for r in rows]
        except duckdb.Error as e:
            raise EngineError(f"duckdb: {type(e).__name__}: {str(e)[:300]}")

    def close(self):
        self.con.close()


def run_duck(sql, tables, schema=None):
    """Returns (column names, rows) or raises EngineError."""
    import duckdb

    con = duck_conn(tables, schema)
    try:
        cur = con.execute(sql)
        names = [d[0] for d in cur.description]
        rows = cur.fetchall()
        return names, [tuple(norm(v) for v in r) for r in rows]
    except duckdb.Error as e:
        raise EngineError(f"duckdb: {type(e).__name__}: {str(e)[:300]}")
    finally:
        con.close()


def run_sqlite(sql, tables, schema=None):
    con = sqlite_conn(tables, schema)
    try:
        cur = con.execute(sql)
        names = [d[0] for d in cur.description]
        rows = cur.fetchall()
        return names, [tuple(norm(v) for v in r) for r in rows]
    except (sqlite3.Error, sqlite3.Warning) as e:
        raise EngineError(f"sqlite: {type(e).__name__}: {str(e)[:300]}")
    finally:
        con.close()


def norm(v):
    if v is None:
        return None
    if isinstance(v, bool):
        return int(v)
    if isinstance(v, decimal.Decimal):
        return int(v) if v == v.to_integral_value() else float(v)
    if isinstance(v, float):
        if math.isnan(v):
            return "NaN"
        return int(v) if v.is_integer() and abs(v) < 2**53 else v
    if isinstance(v, (datetime.datetime, datetime.date, datetime.time)):
        return v.isoformat(sep=" ") if isinstance(v, datetime.datetime) else v.isoformat()
    if isinstance(v, (bytes, bytearray)):
        return bytes(v).hex()
    return v


def _veq(a, b):
    if a is None or b is None:
        return a is None and b is None
    if isinstance(a, (int, float)) and isinstance(b, (int, float)):
        if isinstance(a, float) or isinstance(b, float):
            return math.isclose(a, b, rel_tol=1e-9, abs_tol=1e-9)
        return a == b
    return type(a) is type(b) and a == b


def _req(r1, r2):
    return len(r1) == len(r2) and all(_veq(a, b) for a, b in zip(r1, r2))


def _key(r):
    return tuple((0, "") if v is None else (1, round(v, 6)) if isinstance(v, (int, float)) else (2, str(v)) for v in r)


def same_rows(rows1, rows2, ordered: bool) -> bool:
    if len(rows1) != len(rows2):
        return False
    if not ordered:
        rows1 = sorted(rows1, key=_key)
        rows2 = sorted(rows2, key=_key)
    return all(_req(a, b) for a, b in zip(rows1, rows2))


def show(rows, limit=6):
    return repr(rows[:limit]) + (f" (+{len(rows) - limit} more)" if len(rows) > limit else "")
