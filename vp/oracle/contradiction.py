"""Region of the known finding C06-contradiction-to-false, decided without the simplifier.

A query is in the region when it contains a conjunction with two comparisons of ONE column against literals that no value of
the column satisfies together (x < 0 AND 0 = x), and the conjunction sits where NULL and FALSE are told apart: under a NOT or
outside a filter (projection, ORDER BY ...). The unsatisfiability is decided by evaluating both comparisons on probe values
around the two literals.
"""
from __future__ import annotations

import functools

_OPS = {
    "EQ": lambda a, b: a == b,
    "NEQ": lambda a, b: a != b,
    "LT": lambda a, b: a < b,
    "LTE": lambda a, b: a <= b,
    "GT": lambda a, b: a > b,
    "GTE": lambda a, b: a >= b,
}
_FLIP = {"EQ": "EQ", "NEQ": "NEQ", "LT": "GT", "LTE": "GTE", "GT": "LT", "GTE": "LTE"}


def _cmp(node):
    """(column sql, op with the column on the left, python literal) or None."""
    from sqlglot import exp

    name = type(node).__name__
    if name not in _OPS:
        return None
    left, right = node.this, node.expression
    while isinstance(left, exp.Paren):
        left = left.this
    while isinstance(right, exp.Paren):
        right = right.this
    if isinstance(left, exp.Column) and isinstance(right, (exp.Literal, exp.Neg)):
        col, lit, op = left, right, name
    elif isinstance(right, exp.Column) and isinstance(left, (exp.Literal, exp.Neg)):
        col, lit, op = right, left, _FLIP[name]
    else:
        return None
    neg = False
    if isinstance(lit, exp.Neg):
        neg, lit = True, lit.this
        if not isinstance(lit, exp.Literal):
            return None
    if lit.is_string:
        if neg:
            return None
        val = lit.this
    else:
        try:
            val = int(lit.this)
        except ValueError:
            try:
                val = float(lit.this)
            except ValueError:
                return None
        if neg:
            val = -val
    return col.sql(), op, val


def _probes(vals):
    if all(isinstance(v, str) for v in vals):
        out = {"", "￿"}
        for v in vals:
            out |= {v, v + "\x01", v[:-1] if v else ""}
        return out
    if any(isinstance(v, str) for v in vals):
        return None
    out = set()
    for v in vals:
        out |= {v - 1, v - 0.5, v, v + 0.5, v + 1}
    return out


def _flatten_and(node):
    from sqlglot import exp

    while isinstance(node, exp.Paren):
        node = node.this
    if isinstance(node, exp.And):
        return _flatten_and(node.this) + _flatten_and(node.expression)
    return [node]


@functools.lru_cache(maxsize=4096)
def in_region(sql: str) -> bool:
    import sqlglot
    from sqlglot import exp

    if " AND " not in sql:
        return False
    try:
        tree = sqlglot.parse_one(sql, read="duckdb")
    except Exception:
        return False
    for conj in tree.find_all(exp.And):
        if isinstance(conj.parent, exp.And) or (isinstance(conj.parent, exp.Paren) and isinstance(conj.parent.parent, exp.And)):
            continue  # handled from the top of the chain
        cmps = [c for c in map(_cmp, _flatten_and(conj)) if c]
        hit = False
        for i in range(len(cmps)):
            for j in range(i + 1, len(cmps)):
                (c1, o1, v1), (c2, o2, v2) = cmps[i], cmps[j]
                if c1 != c2:
                    continue
                probes = _probes((v1, v2))
                if probes is None:
                    continue
                if not any(_OPS[o1](p, v1) and _OPS[o2](p, v2) for p in probes):
                    hit = True
        if not hit:
            continue
        # where is it observed?
        node = conj
        while node.parent is not None:
            parent = node.parent
            if isinstance(parent, exp.Not):
                return True
            if isinstance(parent, (exp.Where, exp.Having, exp.Join, exp.Qualify)):
                break
            if isinstance(parent, exp.Select):
                return True  # projection / ORDER BY / GROUP BY position
            if not isinstance(parent, (exp.Paren, exp.And, exp.Or)):
                return True  # under CASE, IS NULL, a function ...: NULL vs FALSE can be observed
            node = parent
    return False
