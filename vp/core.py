"""Shared driver pieces: Hypothesis runner with collect-then-shrink, shard results, known findings."""
from __future__ import annotations

import hashlib
import json
import os
import time
import typing as t
from collections import Counter

import hypothesis
from hypothesis import HealthCheck, Phase, Verbosity, given, settings

HOME = os.environ.get("VP_HOME", os.path.dirname(os.path.dirname(os.path.abspath(__file__))))
REPO = os.environ.get("VP_REPO", "/repo")
OUT = os.environ.get("VP_OUT", HOME)  # evidence/ and replay/ live here (selftest points it at a scratch dir)


def h8(obj: t.Any) -> str:
    """Stable 8-byte fingerprint of a JSON-able object (case identity for distinct counts)."""
    if not isinstance(obj, str):
        obj = json.dumps(obj, sort_keys=True, default=repr, ensure_ascii=True)
    return hashlib.blake2b(obj.encode("utf-8", "surrogatepass"), digest_size=8).hexdigest()


def derive_seed(*parts: t.Any) -> int:
    return int(hashlib.blake2b(repr(parts).encode(), digest_size=8).hexdigest(), 16) % (2**63)


class Res:
    """Mutable per-shard result; merged by the driver."""

    MAX_SAMPLES = 12
    MAX_FAILS = 400

    def __init__(self) -> None:
        self.evaluations = 0
        self.nontrivial: set[str] = set()
        self.classes: Counter = Counter()
        self.excluded: Counter = Counter()
        self.out_of_domain: Counter = Counter()
        self.samples: list = []
        self.sample_classes: set = set()
        self.failures: list[dict] = []
        self.fail_buckets: Counter = Counter()
        self.extra: dict = {}
        self.exhaustive: t.Optional[bool] = None

    # --- recording helpers -------------------------------------------------------------
    def case(self, fingerprint: t.Any, nontrivial: bool, classes: t.Iterable[str] = ()) -> None:
        self.evaluations += 1
        if nontrivial:
            self.nontrivial.add(fingerprint if isinstance(fingerprint, str) and len(fingerprint) == 16 else h8(fingerprint))
        for c in classes:
            self.classes[c] += 1

    def sample(self, obj: t.Any, cls: t.Optional[str] = None) -> None:
        if cls is not None:
            if cls in self.sample_classes:
                return
            if len(self.samples) < 4 * self.MAX_SAMPLES:
                self.sample_classes.add(cls)
                self.samples.append(obj)
            return
        if len(self.samples) < self.MAX_SAMPLES:
            self.samples.append(obj)

    def fail(self, bucket: str, case: t.Any, detail: str) -> None:
        self.fail_buckets[bucket] += 1
        # keep the smallest few per bucket
        n_here = sum(1 for f in self.failures if f["bucket"] == bucket)
        if n_here < 3 and len(self.failures) < self.MAX_FAILS:
            self.failures.append({"bucket": bucket, "case": case, "detail": detail[:2000]})
        else:
            size = len(json.dumps(case, default=repr))
            for f in self.failures:
                if f["bucket"] == bucket and len(json.dumps(f["case"], default=repr)) > size:
                    f["case"], f["detail"] = case, detail[:2000]
                    break

    def to_dict(self) -> dict:
        return {
            "evaluations": self.evaluations,
            "nontrivial": list(self.nontrivial),
            "classes": dict(self.classes),
            "excluded": dict(self.excluded),
            "out_of_domain": dict(self.out_of_domain),
            "samples": self.samples,
            "failures": self.failures,
            "fail_buckets": dict(self.fail_buckets),
            "extra": self.extra,
            "exhaustive": self.exhaustive,
        }


class _Found(Exception):
    pass


def drive(
    strategy,
    body: t.Callable[[t.Any, Res], t.Optional[t.List[t.Tuple[str, str]]]],
    seed: int,
    n: int,
    res: Res,
    only_bucket: t.Optional[str] = None,
    shrink_s: float = 25.0,
    encode: t.Callable[[t.Any], t.Any] = lambda c: c,
) -> t.Optional[dict]:
    """Run `body(case, res)` over `n` generated cases.

    Collect mode (only_bucket None): body returns a list of (bucket, detail) oracle failures which are
    recorded, never raised, so a shallow defect does not hide what lies behind it.
    Shrink mode: the same seed regenerates the same cases; the body raises for `only_bucket` only and
    Hypothesis shrinks; the smallest raising case is returned.
    """
    last: dict = {}
    t0 = time.time()
    phases = [Phase.generate] if only_bucket is None else [Phase.generate, Phase.shrink]

    @hypothesis.seed(seed)
    @settings(
        max_examples=n,
        database=None,
        deadline=None,
        derandomize=False,
        report_multiple_bugs=False,
        suppress_health_check=list(HealthCheck),
        phases=phases,
        verbosity=Verbosity.quiet,
    )
    @given(strategy)
    def _t(case):
        t_case = time.time()
        fails = body(case, res) or []
        dt = time.time() - t_case
        if dt > 10:
            res.extra.setdefault("slow_cases", []).append({"seconds": round(dt, 1), "case": encode(case)})
        if only_bucket is None:
            for b, d in fails:
                res.fail(b, encode(case), d)
            return
        for b, d in fails:
            if b == only_bucket and (not last or time.time() - t0 < shrink_s):
                last["case"] = encode(case)
                last["detail"] = d
                raise _Found()

    try:
        _t()
    except _Found:
        pass
    except hypothesis.errors.HypothesisException:
        # Flaky after the shrink budget ran out, etc.: the smallest raising case seen is still valid.
        pass
    return last or None


def ddmin(items: list, fails: t.Callable[[list], bool], budget: int = 400) -> list:
    """Classic delta debugging over a list; `fails(sub)` must be True for the input."""
    n = 2
    calls = 0
    while len(items) >= 2 and calls < budget:
        chunk = max(1, len(items) // n)
        reduced = False
        for i in range(0, len(items), chunk):
            cand = items[:i] + items[i + chunk :]
            calls += 1
            if cand and fails(cand):
                items = cand
                n = max(n - 1, 2)
                reduced = True
                break
            if calls >= budget:
                break
        if not reduced:
            if chunk == 1:
                break
            n = min(len(items), n * 2)
    return items


# ---------------------------------------------------------------------------------------------
# known findings
# ---------------------------------------------------------------------------------------------


def load_known(prop: str) -> list[dict]:
    path = os.path.join(HOME, "known_findings.json")
    if not os.path.exists(path):
        return []
    with open(path) as f:
        data = json.load(f)
    return [e for e in data.get("findings", []) if e.get("property") == prop]


class KnownIndex(dict):
    """bucket -> entry; entries may also list `bucket_prefixes` (one root cause with an open-ended set of call sites)."""

    def __init__(self):
        super().__init__()
        self.prefixes = []

    def lookup(self, bucket):
        if bucket in self:
            return self[bucket]
        for p, e in self.prefixes:
            if bucket.startswith(p):
                return e
        return None


def known_bucket_index(entries: list[dict]) -> KnownIndex:
    idx = KnownIndex()
    for e in entries:
        if e.get("status") == "known":
            for b in e.get("buckets", []):
                idx[b] = e
            for p in e.get("bucket_prefixes", []):
                idx.prefixes.append((p, e))
    return idx
