"""Subprocess worker for C19: one cold interpreter, N threads, a generated schedule; prints JSON.

usage: python -m vp.workers.c19_worker <case.json>
case: {"threads": N, "orders": [[item index...] per thread], "layer": "L1"|"L2"|"both"|"seq", "delays": [[k, ms]...], "switch": float, "items": [...]}
"""
import json
import sys
import threading
import time


def main():
    case = json.load(open(sys.argv[1]))
    items = case["items"]
    n = case["threads"]

    # count module body executions of sqlglot modules (a lazy module must be executed once however the first accesses interleave)
    import importlib._bootstrap_external as be

    exec_counts = {}
    orig_exec = be.SourceFileLoader.exec_module

    def counting_exec(self, module):
        name = getattr(module, "__name__", "?")
        if name.startswith("sqlglot"):
            exec_counts[name] = exec_counts.get(name, 0) + 1
        return orig_exec(self, module)

    be.SourceFileLoader.exec_module = counting_exec

    import logging

    logging.getLogger("sqlglot").setLevel(logging.CRITICAL)

    def run_item(it):
        import sqlglot
        from sqlglot.errors import SqlglotError

        try:
            op, d, sql = it["op"], it["dialect"] or None, it["sql"]
            if op == "tokenize":
                return " ".join(t.text for t in sqlglot.tokenize(sql, read=d))
            if op == "parse":
                return sqlglot.parse_one(sql, dialect=d).sql()
            if op == "transpile":
                return sqlglot.transpile(sql, read=d, write=it["write"] or None, unsupported_level=sqlglot.ErrorLevel.IGNORE)[0]
            if op == "optimize":
                from sqlglot.optimizer import optimize

                return optimize(sqlglot.parse_one(sql, dialect=d), schema=it["schema"], dialect=d).sql(dialect=d)
            if op == "dialect":
                from sqlglot.dialects.dialect import Dialect

                return type(Dialect.get_or_raise(d)).__name__
            if op == "attr":
                import sqlglot.dialects as D

                return getattr(D, it["sql"]).__name__
            if op == "optattr":
                import sqlglot.optimizer as O

                return getattr(O, it["sql"]).__name__
        except SqlglotError as e:
            return f"<{type(e).__name__}>"
        except RecursionError:
            return "<RecursionError>"
        except Exception as e:
            return f"<LEAK {type(e).__name__}: {str(e)[:200]}>"
        return "?"

    if case["layer"] == "seq":
        out = {str(i): run_item(it) for i, it in enumerate(items)}
        json.dump({"results": out, "exec_counts": exec_counts}, sys.stdout)
        return

    anchored = {"__getattr__", "_try_load", "get", "__getitem__", "get_or_raise", "__new__", "__init__", "_build_dispatch", "classes"}
    anchored_files = ("dialects/__init__.py", "dialects/dialect.py", "optimizer/__init__.py", "generator.py")
    inside = {"now": 0, "max": 0}
    inside_lock = threading.Lock()
    delays = {int(k): ms for k, ms in case.get("delays", [])}
    counter = {"n": 0}

    def local_trace(frame, event, arg):
        if event == "line":
            counter["n"] += 1
            ms = delays.get(counter["n"] % 997)
            if ms:
                time.sleep(ms / 1000.0)
        elif event == "return":
            with inside_lock:
                inside["now"] -= 1
        return local_trace

    def tracer(frame, event, arg):
        if event != "call":
            return None
        code = frame.f_code
        if code.co_name in anchored and code.co_filename.endswith(anchored_files):
            with inside_lock:
                inside["now"] += 1
                inside["max"] = max(inside["max"], inside["now"])
            return local_trace
        return None

    use_trace = case["layer"] in ("L2", "both")
    if case.get("switch"):
        sys.setswitchinterval(case["switch"])
    barrier = threading.Barrier(n)
    results = [dict() for _ in range(n)]
    died = []

    def work(k):
        if use_trace:
            sys.settrace(tracer)
        try:
            barrier.wait()
            for i in case["orders"][k]:
                results[k][str(i)] = run_item(items[i])
        except BaseException as e:
            died.append(f"thread {k}: {type(e).__name__}: {str(e)[:200]}")
        finally:
            sys.settrace(None)

    threads = [threading.Thread(target=work, args=(k,)) for k in range(n)]
    for t in threads:
        t.start()
    for t in threads:
        t.join(600)
    json.dump({"results": results, "exec_counts": exec_counts, "max_inside": inside["max"], "died": died, "alive": sum(t.is_alive() for t in threads)}, sys.stdout)


if __name__ == "__main__":
    main()
