"""Subprocess worker for C15: run a workload under one configuration and print {id: output} as JSON.

usage: python -m vp.workers.c15_worker <workload.json> <order_seed> <reuse:0|1> <pollute:0|1>
PYTHONHASHSEED is set by the parent through the environment.
"""
import json
import logging
import random
import sys


def main():
    path, order_seed, reuse, pollute = sys.argv[1], int(sys.argv[2]), sys.argv[3] == "1", sys.argv[4] == "1"
    logging.getLogger("sqlglot").setLevel(logging.CRITICAL)
    import sqlglot
    from sqlglot import ErrorLevel
    from sqlglot.dialects.dialect import Dialect
    from sqlglot.errors import SqlglotError
    from sqlglot.schema import MappingSchema

    work = json.load(open(path))
    items = work["items"]
    order = list(range(len(items)))
    if order_seed:
        random.Random(order_seed).shuffle(order)  # the schedule is an input of the configuration, not a random choice of the property
    schema_dict = work["schema"]
    cache = {}
    shared_schema = {}

    def comp(d):
        if d not in cache:
            dia = Dialect.get_or_raise(d or None)
            cache[d] = (dia, dia.parser(error_level=ErrorLevel.RAISE), dia.generator(unsupported_level=ErrorLevel.RAISE), dia.tokenizer())
        return cache[d]

    def schema_for(d):
        if reuse:
            if d not in shared_schema:
                shared_schema[d] = MappingSchema(schema_dict, dialect=d or None)
            return shared_schema[d]
        return MappingSchema(schema_dict, dialect=d or None)

    def parse(sql, d):
        if reuse:
            dia, parser, _, tok = comp(d)
            return parser.parse(tok.tokenize(sql), sql)[0]
        return sqlglot.parse_one(sql, dialect=d or None, error_level=ErrorLevel.RAISE)

    def gen(tree, d):
        if reuse:
            return comp(d)[2].generate(tree)
        return tree.sql(dialect=d or None, unsupported_level=ErrorLevel.RAISE)

    out = {}
    for n, i in enumerate(order):
        it = items[i]
        op, d, sql = it["op"], it["dialect"], it["sql"]
        if pollute and n % 3 == 0:
            try:
                sqlglot.transpile("SELECT a + 1 AS b FROM (SELECT 1 AS a) AS q WHERE a IN (1, 2) ORDER BY 1", read=items[(i * 7) % len(items)]["dialect"] or None, write="tsql")
            except Exception:
                pass
        try:
            if op == "parse":
                t = parse(sql, d)
                r = gen(t, "") + " || " + repr(t)[:2000]
            elif op == "transpile":
                r = gen(parse(sql, d), it["write"])
            elif op == "pretty":
                r = parse(sql, d).sql(dialect=it["write"] or None, pretty=True, unsupported_level=ErrorLevel.IGNORE)
            elif op == "optimize":
                from sqlglot.optimizer import optimize

                r = optimize(parse(sql, d), schema=schema_for(d), dialect=d or None).sql(dialect=d or None)
            elif op == "qualify":
                from sqlglot.optimizer.qualify import qualify

                r = qualify(parse(sql, d), schema=schema_for(d), dialect=d or None).sql(dialect=d or None)
            elif op == "annotate":
                from sqlglot.optimizer.annotate_types import annotate_types
                from sqlglot.optimizer.qualify import qualify

                t = annotate_types(qualify(parse(sql, d), schema=schema_for(d), dialect=d or None), schema=schema_for(d), dialect=d or None)
                r = "; ".join(f"{s.alias_or_name}:{s.type.sql() if s.type else None}" for s in t.selects)
            elif op == "lineage":
                from sqlglot.lineage import lineage

                t = parse(sql, d)
                res = lineage(None, t, schema=schema_for(d), dialect=d or None)
                r = "; ".join(f"{k}<-" + ",".join(sorted({n.name for n in node.walk() if not n.downstream})) for k, node in res.items())
            elif op == "annmix":
                from sqlglot.optimizer.annotate_types import annotate_types
                from sqlglot.optimizer.qualify import qualify

                ms = MappingSchema(work["mix_schema"], dialect=d or None)
                t = annotate_types(qualify(parse(sql, d), schema=ms, dialect=d or None), schema=ms, dialect=d or None)
                r = "; ".join(f"{s.alias_or_name}:{s.type.sql() if s.type else None}" for s in t.selects)
            elif op == "schema":
                mapping = work["mappings"][it["m"]]
                udfs = work["udfs"][it["m"]]
                if order_seed:
                    # same registrations, listed in another order
                    rnd = random.Random(order_seed + it["m"])
                    tabs = list(mapping)
                    rnd.shuffle(tabs)
                    mapping = {t: dict(mapping[t]) for t in tabs}  # column order is part of a schema (star expansion), table order is not
                    udfs = dict(rnd.sample(list(udfs.items()), len(udfs)))
                key = ("map", d, it["m"])
                if reuse:
                    if key not in shared_schema:
                        shared_schema[key] = MappingSchema(mapping, dialect=d or None, udf_mapping=udfs)
                    sch = shared_schema[key]
                else:
                    sch = MappingSchema(mapping, dialect=d or None, udf_mapping=udfs)
                if it["kind"] == "cols":
                    r = repr(list(sch.column_names(it["table"])))
                elif it["kind"] == "type":
                    r = sch.get_column_type(it["table"], it["col"]).sql()
                elif it["kind"] == "has":
                    r = repr(bool(sch.has_column(it["table"], it["col"])))
                elif it["kind"] == "udf":
                    r = sch.get_udf_type(f"{it['col']}()").sql()
                else:
                    from sqlglot.optimizer import optimize

                    r = optimize(parse(f"SELECT {it['col']} FROM {it['table']}", d), schema=sch, dialect=d or None).sql(dialect=d or None)
            elif op == "simplify":
                from sqlglot.optimizer.simplify import simplify

                r = simplify(parse(sql, d), dialect=d or None).sql(dialect=d or None)
            elif op == "tokenize":
                toks = comp(d)[3].tokenize(sql) if reuse else sqlglot.tokenize(sql, read=d or None)
                r = " ".join(f"{t.token_type.name}:{t.text}:{t.line}:{t.col}" for t in toks)
            else:
                r = "?"
        except SqlglotError as e:
            r = f"<{type(e).__name__}: {str(e)[:300]}>"
        except RecursionError:
            r = "<RecursionError>"
        except Exception as e:
            r = f"<{type(e).__name__}: {str(e)[:300]}>"
        out[str(i)] = r
    json.dump(out, sys.stdout)


if __name__ == "__main__":
    main()
