#!/venv/bin/python
"""Regenerates MANIFEST.json from the CHECKS table below (keeps the file valid at all times)."""
import json, os

HERE = os.path.dirname(os.path.abspath(__file__))
BASELINE = "cd /repo && /venv/bin/python -m pytest -ra -q -p no:cacheprovider --timeout=900 --continue-on-collection-errors"

# id -> (technique, level text, level note, design ref)
CHECKS = {
    "C06": (
        "property-based testing (Hypothesis, typed expression grammar) with a truth-table differential oracle on SQLite, per-rule runtime observer",
        "Generated-input search: thousands of well-typed boolean/arithmetic expressions per run, each compared with its simplify()/normalize() result "
        "(and, in observer cases, every single rule application) on the complete cross product of NULL-bearing column domains. Exhaustive per case over the "
        "assignment space, sampled over the expression space; no proof of absence.",
        "Trusts SQLite's evaluation of the no-division/no-text fragment and sqlglot's sqlite generator for the rewritten expression (operands are explicitly "
        "parenthesised by the harness so text means what the tree means). Two known findings are relaxed only on rows where the offending operand is NULL.",
        "DESIGN.md §C06",
    ),
}

NOT_YET = {}


def main():
    props = [json.loads(l) for l in open(os.path.join(HERE, "properties.jsonl"))]
    checks = []
    for p in props:
        pid = p["id"]
        if pid not in CHECKS:
            continue
        tech, text, note, ref = CHECKS[pid]
        checks.append(
            {
                "property_id": pid,
                "quick_cmd": f"./check {pid} quick",
                "thorough_cmd": f"./check {pid} thorough",
                "evidence_file": f"/verif/evidence/{pid}.json",
                "replay_cmd_template": f"./check {pid} --replay {{path}}",
                "engine": "vp",
                "level_claimed": {"category": "exploration", "text": text, "design_ref": ref},
                "level_note": note,
                "technique": tech,
            }
        )
    na = [{"property_id": p["id"], "reason": NOT_YET.get(p["id"], "check not built yet in this revision of /verif (work in progress; see DESIGN.md §5 for the order)")} for p in props if p["id"] not in CHECKS]
    fixes = [l.split()[0] for l in os.popen("git -C /repo log --format='%h %s' 899cdbc..HEAD").read().splitlines() if " fix:" in " " + l]
    m = {
        "version": 1,
        "setup_cmd": "bash ./setup.sh",
        "hooks": {
            "guard": "SQLGLOT_VERIF",
            "enable": "none needed: checks import /repo's working tree (PYTHONPATH) and attach counting/observing wrappers at run time from /verif/vp; no hook commit exists",
            "baseline_off_cmd": BASELINE,
            "source_commits": [],
            "add_only": True,
        },
        "engines": [{"name": "vp", "path": "/verif/vp", "serves_properties": [c["property_id"] for c in checks], "kind_free_text": "Hypothesis-driven generated-input search with differential/metamorphic oracles (sqlite3, duckdb), 16-way sharded; atheris for byte-level targets"}],
        "checks": checks,
        "notes": "fix: commits in /repo (genuine defects repaired, unguarded): " + ", ".join(fixes) + ". Known findings: /verif/known_findings.json. Sensitivity mutants: /verif/mutants, run with ./selftest.",
        "not_applicable": na,
    }
    with open(os.path.join(HERE, "MANIFEST.json"), "w") as f:
        json.dump(m, f, indent=1)
        f.write("\n")
    import jsonschema

    jsonschema.validate(m, json.load(open("/root/.vp/MANIFEST.schema.json")))
    print("MANIFEST ok:", len(checks), "checks,", len(na), "not applicable")


if __name__ == "__main__":
    main()
