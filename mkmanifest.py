#!/venv/bin/python
"""Regenerates MANIFEST.json from the CHECKS table below (keeps the file valid at all times)."""
import json, os

HERE = os.path.dirname(os.path.abspath(__file__))
BASELINE = "cd /repo && /venv/bin/python -m pytest -ra -q -p no:cacheprovider --timeout=900 --continue-on-collection-errors"

# id -> (technique, level text, level note, design ref)
CHECKS = {
    "C01": (
        "property-based testing (Hypothesis core-grammar statement generator x 34 dialects x 2 streams) plus a bounded-exhaustive time-format stream (4 functions x 12 formats x 34 dialects, also in each dialect's own format notation) with a round-trip oracle: parse-generate fixpoint, reparse, tree equality (== and independent fingerprint) and time-format identity in base",
        "Generated-input search: every statement is round-tripped in every dialect directly and through the dialect's own surface syntax; failures are reduced to the smallest sub-tree that fails the same way and keyed by (dialect, kind, node class). "
        "The base dialect, the exhaustive time-format stream (per-expression cells) and every dialect without catalogued buckets are strict; catalogued (dialect, kind, construct) buckets in known_findings.json were collected by three 3.5M-case campaigns and each is tied to a root cause with a witness.",
        "A statement that does not parse in d is outside d's domain. Bucket granularity is the node class of the minimal failing sub-tree (or 'ctx' when the failure only reproduces in context), so a new defect in an already catalogued (dialect, kind, class) cell is masked.",
        "DESIGN.md §C01",
    ),
    "C02": (
        "property-based testing (Hypothesis typed query + database generator) with a differential oracle: source engine vs target engine (sqlite3, duckdb) on transpiled text, four dialect pairs",
        "Generated-input search over typed common-fragment queries and NULL-bearing databases; each query runs on its source engine and its transpiled text on the target engine, rows compared as multisets or as sequences under a total ORDER BY. "
        "Includes DuckDB-side QUALIFY, DISTINCT ON, SEMI/ANTI joins and strftime over a TIMESTAMP table. Sampled; the fragment is defined positively in DESIGN.md.",
        "Trusts sqlite3 3.40 and duckdb 1.x as reference semantics of the fragment. One known finding (DISTINCT ON -> SQLite loses the final ORDER BY) exempts only the row sequence of those cases.",
        "DESIGN.md §C02",
    ),
    "C03": (
        "property-based testing (Hypothesis typed query + database generator, plus targeted guard-shape stream) with a differential oracle on DuckDB: original text vs optimize() output per full pipeline, per single rule and per pipeline prefix",
        "Generated-input search: each query/database pair is executed on DuckDB before and after optimize() with the full rule list, with (qualify, r) for every rule r, and (sampled in quick, always in thorough) with every prefix RULES[:k]; rows and output column names must agree. "
        "A targeted stream puts LIMIT/DISTINCT/GROUP BY/window/constant projections in a derived table or CTE under an outer predicate, join side or aggregate, which is where the optimizer's guards sit.",
        "DuckDB is the reference; OptimizeError is an allowed outcome. Two listed known findings pinned by upstream fixtures (RIGHT JOIN ON TRUE -> CROSS JOIN; CROSS JOIN (… LIMIT 1) elimination) are excluded by construction and counted.",
        "DESIGN.md §C03",
    ),
    "C11": (
        "property-based testing (Hypothesis typed query + table generator) with a differential oracle: sqlglot.executor.execute vs DuckDB, and vs SQLite when it accepts the text",
        "Generated-input search over the executor's fragment; execute() must return the engines' column names and rows (multiset / sequence under total ORDER BY with explicit NULLS FIRST|LAST) or raise ExecuteError. Cases on which the two engines disagree with each other are discarded and counted.",
        "DuckDB/SQLite are the reference; three known findings are excluded by construction and counted (DISTINCT + ORDER BY; the two optimizer findings execute() inherits).",
        "DESIGN.md §C11",
    ),
    "C04": (
        "bounded-exhaustive enumeration (adversarial alphabet^<=2, thorough ^<=3, x 34 dialects) + property-based testing (Hypothesis mixed texts x literal kinds x options); oracle: the dialect's own tokenizer must return exactly one token with the same value",
        "Exhaustive over every value of length <=2 (thorough <=3 over a reduced alphabet) from an alphabet containing every delimiter/escape/comment marker of all dialects, for string literals and quoted identifiers in each dialect; "
        "random longer values for National/Raw strings, auto-quoted identifiers, builder-API injection forms (same token-type sequence as with a harmless value) and comments (token stream unchanged; none with comments=False).",
        "The dialect's tokenizer is the judge, as the property states. Two known findings are excluded by construction (Athena strings with backslash; user text equal to the line-break sentinel under pretty=True).",
        "DESIGN.md §C04",
    ),
    "C13": (
        "property-based testing (Hypothesis re-spaced / commented / multi-byte / token-mutated statements x dialects) with an independent reference position model computed from offsets",
        "Each generated text is tokenized in 4 drawn dialects: order, bounds, non-overlap, whitespace-or-comment gaps, (line, col) of every token against a reference computed from its end offset (LF, CR, CRLF), VAR lexeme identity; "
        "ParseError entries must point at a token and quote a contiguous slice whose highlight is that token; TokenError start/end select the quoted snippet; Identifier meta positions select a lexeme naming the node.",
        "Token.line/col describe the token's last character and Token.end is inclusive. Which token a ParseError should blame is not decided (only that it is a token and that the snippet matches it).",
        "DESIGN.md §C13",
    ),
    "C05": (
        "property-based testing / grammar-aware fuzzing (Hypothesis: valid statements generated for all 34 dialects, token-level mutations by the dialect's own tokenizer, keyword soups, random Unicode, scaled repetition and nesting, mutated statements of the repository's fixture corpus) plus an exhaustive sweep of the 7146 fixture statements into all 34 dialects, with an exception-family oracle and a deterministic work counter (sys.setprofile call counting) as termination/complexity oracle",
        "Every generated input is parsed at a drawn error level in a drawn dialect and every returned tree is generated (unmutated statements: into every dialect); only SqlglotError subclasses may escape and the number of Python calls made inside sqlglot (dialect loading, mutation tokenisation, parse, generation) must stay below min(40*n^2, 5000*n)+400000 for n input characters, "
        "which decides non-termination without a clock (three infinite loops in the parser were found this way and repaired). Unmutated grammar/fixture statements and the work bound are strict; leaks on mutated or garbage text are keyed by call site against a catalogue with a >=3-inputs floor.",
        "RecursionError is an environment bound. Generation from trees of invalid input (IGNORE/WARN) and from lenient-accepted incomplete trees are listed known findings (open-ended call sites, prefix match); eleven parser call sites and six generator call sites are listed individually.",
        "DESIGN.md §C05",
    ),
    "C06": (
        "property-based testing (Hypothesis, typed expression grammar) with a truth-table differential oracle on SQLite, per-rule runtime observer",
        "Generated-input search: thousands of well-typed boolean/arithmetic expressions per run, each compared with its simplify()/normalize() result "
        "(and, in observer cases, every single rule application) on the complete cross product of NULL-bearing column domains. Exhaustive per case over the "
        "assignment space, sampled over the expression space; no proof of absence.",
        "Trusts SQLite's evaluation of the no-division/no-text fragment and sqlglot's sqlite generator for the rewritten expression (operands are explicitly "
        "parenthesised by the harness so text means what the tree means). Two known findings are relaxed only on rows where the offending operand is NULL.",
        "DESIGN.md §C06",
    ),
    "C07": (
        "property-based testing (Hypothesis core-grammar statements x dialects x generator-option vectors), metamorphic oracle: option output reparses to the default output's tree modulo the option's dimension",
        "Generated-input search over statements, dialects and option vectors; each option output is reparsed in its dialect and compared by == and by an independent fingerprint with the default output's tree "
        "(comments stripped / quoted flags cleared as the property allows), plus sentinel, comments=False and token-value checks through the dialect's own tokenizer. Sampled, not exhaustive.",
        "Domain is restricted to statements whose default output round-trips in the dialect (C01's subject otherwise); opaque Command fallbacks are out of domain; T-SQL dynamic-SQL rendering is a listed known finding.",
        "DESIGN.md §C07",
    ),
    "C08": (
        "property-based testing of operation histories (Hypothesis-generated sequences of public tree mutations with cache-filling probes, invariant after every step) + bounded-exhaustive short histories + parser/optimizer outputs incl. the repository's identity fixtures as seed corpus",
        "Generated histories of up to 25 (thorough 40) public operations; after every step the parent/arg_key/index links, absence of sharing, hash(node)==hash(independently rebuilt node) for every node, and agreement of == with an "
        "independent structural fingerprint are checked. All histories of length 2 (thorough 3) over two tiny trees and 11 operations are enumerated. Outputs of parse_one in 34 dialects and of each optimizer rule are checked with the same invariants.",
        "Observes cached hashes only through hash(); operations the API refuses are skipped. Exhaustiveness applies to the short-history sub-space only.",
        "DESIGN.md §C08",
    ),
    "C09": (
        "property-based testing (Hypothesis statements x generated call sequences of copying APIs) with before/after deep-fingerprint oracle; copy-independence under generated edits",
        "Each case applies 3-8 generated calls plus sql() into all 34 dialects to one shared argument tree and compares an independent deep fingerprint (class, args, public type, comments, meta), the SQL text and the link invariant before and after every call; "
        "then checks that a copy shares no node and that generated in-place edits on either side do not leak to the other.",
        "A call that raises is still required to leave its argument untouched. Sampled over statements, dialects and call orders.",
        "DESIGN.md §C09",
    ),
    "C12": (
        "property-based testing (Hypothesis statements with comments x dialects x {parsed, annotated, qualified}) with round-trip oracle over dump/load, JSON text, pickle and copy",
        "For every generated tree variant each serialisation route must return a tree that is ==, has an identical independent deep fingerprint (incl. public type, comments, meta), generates the same SQL in three dialects, satisfies the link invariant and shares no node; json.dumps(dump(t)) must not raise.",
        "Observes nodes through public attributes only. Sampled over the core grammar; node classes outside it are reached only through dialect-specific parsing of core statements.",
        "DESIGN.md §C12",
    ),
    "C10": (
        "property-based testing (Hypothesis typed queries with a generated qualification mask, targeted star/USING/alias-reference/column-list/ambiguity shapes, schema depth 1-3) with structural, idempotence and DuckDB-binder differential oracles; generated-identifier laws over all dialects",
        "qualify() must raise OptimizeError or return a query that is complete (aliases, visible sources, expanded stars in schema order, unchanged output names), idempotent, and - for DuckDB-dialect cases - executes to the same rows and names as the original on DuckDB, "
        "raising exactly when DuckDB's binder rejects the original. Identifier normalisation is checked for idempotence and per-strategy folding on generated identifiers in all 34 dialects.",
        "DuckDB's binder is the independent judge of name resolution; bare columns are only generated when exactly one source of the query owns the name, so ambiguity arises only from the targeted shapes.",
        "DESIGN.md §C10",
    ),
    "C16": (
        "bounded-exhaustive enumeration (every depth-1 operator/function/cast/aggregate/window x column-type combination) + property-based testing (Hypothesis nesting to depth 4) with a differential oracle: DuckDB typeof() class vs annotate_types class",
        "All ~10k depth-1 expressions over ten column types are enumerated on every run, and nested expressions are drawn at random; each expression DuckDB accepts is typed by DuckDB and by annotate_types(dialect='duckdb') and the type classes must agree. "
        "Disagreements are attributed to the deepest disagreeing node; the finite table of known (node class, inferred, engine) cells is listed in known_findings.json, an UNKNOWN ceiling guards against vacuous agreement, and the SQL must not change through annotation.",
        "DuckDB's typeof() is the reference. Cells outside the catalogue are violations at a rate >= 2e-4 of the run (>= 3 hits); the catalogue also lists the DuckDB generator's type-aware rewrites that make SQL differ after annotation.",
        "DESIGN.md §C16",
    ),
    "C19": (
        "schedule fuzzing: Hypothesis-generated schedule cases (thread counts, per-thread first-use orders over all dialects, switch interval, sys.settrace delay injection inside the first-use functions) run in fresh interpreters, differential oracle against a sequential baseline process",
        "Every case is a cold interpreter in which 2-16 threads each touch every dialect (lookup, lazy attribute, tokenize, parse, transpile, optimize) in a generated order, free-running with a 1 microsecond switch interval and/or with generated sleeps at line events inside the lazy-loading and first-use functions. "
        "All results must equal the sequential baseline from a separate process, no thread may die or leak an internal exception, and every sqlglot module body runs once. Evidence reports how many cases had >=2 threads inside a first-use function at once.",
        "Samples interleavings; it cannot enumerate them. A race outside the traced functions with a window narrower than those found (three were found and repaired) can be missed; reproduction of a failing schedule is probabilistic (replay reruns it).",
        "DESIGN.md §C19",
    ),
    "C17": (
        "property-based testing (Hypothesis relation programs with by-construction provenance, rendered as derived tables / CTEs / sources= and with permuted aliases) with an exact-set oracle on lineage leaves",
        "For every output column of every generated program the set of (table, column) leaves of lineage() must equal the provenance recorded while the query was built, in all three presentations, under alias permutation, and through lineage(None) with its shared cache.",
        "Provenance = every column referenced inside the projected expression (incl. CASE conditions and a scalar subquery's projection); WHERE/ON columns are not lineage. Nesting <= 4 relations.",
        "DESIGN.md §C17",
    ),
    "C14": (
        "property-based testing (Hypothesis scripts of valid/mutated statements x dialects x max_errors; trees x dialect pairs x max_unsupported) with a four-run relational oracle over return values, exceptions and captured 'sqlglot' logger records",
        "Each input is processed under IGNORE, WARN, RAISE and IMMEDIATE by separate Parser/Generator objects; the relation of the property (who raises when, what the message contains, equality of trees/texts, error_level restored) is checked against the records WARN logged.",
        "A TokenError is outside the parser's domain; leaked internal exceptions are C05's subject and make the relation undefined for that input (skipped). Unsupported-message paths are driven by a measured list of constructs.",
        "DESIGN.md §C14",
    ),
    "C15": (
        "property-based testing (Hypothesis-drawn workloads) with a metamorphic oracle across subprocess configurations: PYTHONHASHSEED x processing order x fresh vs reused Parser/Generator/Tokenizer/MappingSchema x pollution calls",
        "Every workload (parse, transpile, pretty, tokenize, simplify, optimize, qualify, annotate, lineage triples) runs in four fresh interpreters; each triple's output must be byte-identical to the baseline configuration. Failing workloads are reduced by delta debugging over their items.",
        "Compares rendered outputs (SQL text, repr of parsed trees, type strings, lineage leaves, error class+message). AST diff is excluded as the property says. Sampled configurations, not all orders.",
        "DESIGN.md §C15",
    ),
    "C18": (
        "property-based testing of operation histories (Hypothesis-generated add_table/lookup sequences x depth x dialect x normalize) with two oracles: lookup-free replay on a fresh MappingSchema and a tiny dict model; bounded-exhaustive short histories",
        "After every lookup of a generated history the instance that has served earlier lookups must answer exactly like a new instance that received the same registrations and no lookup; for default-dialect lower-case histories an independent dict model predicts visibility, updates, suffix matching and ambiguity. "
        "All histories of length 2 and 3 (thorough 3 and 4) over a reduced universe at depth 2 are enumerated.",
        "The replay realises 'a schema freshly constructed from the final mapping' without re-normalising keys. The dict model covers column_names only.",
        "DESIGN.md §C18",
    ),
    "C20": (
        "property-based testing (Hypothesis source trees x generated edit scripts / independent trees x true-correspondence matchings) with an accounting oracle over the edit script",
        "Every non-Identifier node of source/target must be accounted exactly once (Remove|Keep|Update source side; Insert|Keep|Update target side), paired nodes share a class, no foreign nodes, delta_only == full minus Keep, "
        "delta empty <=> independent fingerprints equal, inputs untouched (deep fingerprint, text, links). Repetitive trees are over-weighted because ties drive the matching.",
        "Edited targets that are structurally incomplete (a required arg removed) are outside diff's domain and counted as such; caller matchings are true correspondences (same node before the edit script).",
        "DESIGN.md §C20",
    ),
}

NOT_YET = {}


def main():
    props = [json.loads(l) for l in open(os.path.join(HERE, "properties.jsonl"))]
    checks = []
    for p in props:
        pid = p["id"]
        if pid not in CHECKS:
            continue
        tech, text, note, ref = CHECKS[pid]
        checks.append(
            {
                "property_id": pid,
                "quick_cmd": f"./check {pid} quick",
                "thorough_cmd": f"./check {pid} thorough",
                "evidence_file": f"/verif/evidence/{pid}.json",
                "replay_cmd_template": f"./check {pid} --replay {{path}}",
                "engine": "vp",
                "level_claimed": {"category": "exploration", "text": text, "design_ref": ref},
                "level_note": note,
                "technique": tech,
            }
        )
    na = [{"property_id": p["id"], "reason": NOT_YET.get(p["id"], "check not built yet in this revision of /verif (work in progress; see DESIGN.md §5 for the order)")} for p in props if p["id"] not in CHECKS]
    fixes = [l.split()[0] for l in os.popen("git -C /repo log --format='%h %s' 899cdbc..HEAD").read().splitlines() if " fix:" in " " + l]
    m = {
        "version": 1,
        "setup_cmd": "bash ./setup.sh",
        "hooks": {
            "guard": "SQLGLOT_VERIF",
            "enable": "none needed: checks import /repo's working tree (PYTHONPATH) and attach counting/observing wrappers at run time from /verif/vp; no hook commit exists",
            "baseline_off_cmd": BASELINE,
            "source_commits": [],
            "add_only": True,
        },
        "engines": [{"name": "vp", "path": "/verif/vp", "serves_properties": [c["property_id"] for c in checks], "kind_free_text": "Hypothesis-driven generated-input search with differential/metamorphic oracles (sqlite3, duckdb), 16-way sharded; atheris for byte-level targets"}],
        "checks": checks,
        "notes": "fix: commits in /repo (genuine defects repaired, unguarded): " + ", ".join(fixes) + ". Known findings: /verif/known_findings.json. Sensitivity mutants: /verif/mutants, run with ./selftest.",
        "not_applicable": na,
    }
    with open(os.path.join(HERE, "MANIFEST.json"), "w") as f:
        json.dump(m, f, indent=1)
        f.write("\n")
    import jsonschema

    jsonschema.validate(m, json.load(open("/root/.vp/MANIFEST.schema.json")))
    print("MANIFEST ok:", len(checks), "checks,", len(na), "not applicable")


if __name__ == "__main__":
    main()
