#!/bin/bash
# ./sweep.sh <seed>... : every registered quick check at each seed; prints one line per (check, seed)
for s in "$@"; do
  for p in C01 C02 C03 C04 C05 C06 C07 C08 C09 C10 C11 C12 C13 C14 C15 C16 C17 C18 C19 C20; do
    t0=$(date +%s)
    VP_OUT=out/sweep_$s VERIF_SEED=$s ./check $p quick > out_sweep_${p}_$s.log 2>&1
    rc=$?
    echo "seed=$s $p rc=$rc $(( $(date +%s) - t0 ))s $(grep -a "^$p quick" out_sweep_${p}_$s.log | cut -c1-110) $(grep -a -c VIOLATION out_sweep_${p}_$s.log) $(grep -a 'HARNESS' out_sweep_${p}_$s.log | head -1 | cut -c1-150)"
  done
done
