#!/venv/bin/python
"""kf.py '<json entry>'  -- append/replace an entry (by id) in known_findings.json (development-time only; never used by checks)."""
import json, sys
e = json.loads(sys.argv[1])
p = "/verif/known_findings.json"
d = json.load(open(p))
d["findings"] = [x for x in d["findings"] if x["id"] != e["id"]] + [e]
json.dump(d, open(p, "w"), indent=1, ensure_ascii=False)
print("entries:", len(d["findings"]))
